//! Reads "<type> <value>" lines, prints "<type> <value> <to_lean_string> <to_string>" using the real crate.
use lean_string::ToLeanString;
use std::io::BufRead;
fn main() {
    for line in std::io::stdin().lock().lines() {
        let line = line.unwrap();
        let mut it = line.split_whitespace();
        let (Some(ty), Some(v)) = (it.next(), it.next()) else { continue };
        macro_rules! go { ($($t:ident),*) => { match ty { $( stringify!($t) => { let n: $t = v.parse().unwrap();
            let r = std::panic::catch_unwind(|| n.to_lean_string().as_str().to_owned());
            let shown = match r { Ok(s) => s.replace(' ', "<sp>").replace('\0', "<nul>"), Err(_) => "<PANIC>".to_string() };
            println!("{} {} {} {}", ty, v, shown, n.to_string()); } )* _ => {} } } }
        go!(i8, u8, i16, u16, i32, u32, i64, u64, isize, usize, i128, u128);
    }
}
