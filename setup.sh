#!/bin/sh
# Offline setup after a fresh restore: nothing is downloaded; warm the build caches the checks use
# (each check rebuilds what it needs from /repo's current tree anyway, so a failure here is not fatal).
set -u
cd "$(dirname "$0")"
export CARGO_NET_OFFLINE=true
mkdir -p .build/logs .build/target evidence replays
chmod +x check lib/mkmanifest.py 2>/dev/null
( cd kani/std && CARGO_TARGET_DIR=../../.build/target/native cargo test --offline --quiet --test model_vs_string --no-run ) >/dev/null 2>&1 || echo "setup: native model test prebuild failed (checks will rebuild)"
( cd mir2smt/replay && CARGO_TARGET_DIR=../../.build/target/mirreplay cargo build --offline --quiet && CARGO_TARGET_DIR=../../.build/target/mirreplay cargo build --offline --quiet --release ) >/dev/null 2>&1 || echo "setup: replay crate prebuild failed (checks will rebuild)"
python3-vt -c "import z3" || { echo "setup: z3 python module missing"; exit 1; }
command -v cargo-kani >/dev/null || { echo "setup: cargo-kani missing"; exit 1; }
echo "setup ok"
