#!/usr/bin/env python3-vt
"""Regenerates /verif/MANIFEST.json from the property plans (run by hand after changing plans)."""
import json, os, sys
sys.path.insert(0, os.path.dirname(os.path.abspath(__file__)))
import props

VERIF = os.path.dirname(os.path.dirname(os.path.abspath(__file__)))
LEVEL_TEXT = {
    "C01": "Bounded model checking of the real crate: one solver-decided step of every mutator from every canonical storage state (inline/static/heap unique/shared/tiny) against an array String model, with INV closing the state family (DESIGN 4). Right level because the property quantifies over histories and argument values that sampling cannot exhaust.",
    "C02": "Bounded model checking: every non-target handle is snapshotted before and compared after one symbolic step (successful, failing through a refused allocation, or panicking on a bad index) in every sharing situation incl. differing handle-local lengths.",
    "C03": "Bounded model checking with CBMC's memory-safety checks (out of bounds, use after free, double free) on the real accesses plus shim accounting of every alloc/realloc/dealloc (size, alignment, liveness) and an epilogue that drops handles in both orders and requires zero live blocks.",
    "C04": "Bounded model checking of a sequentialisation: the crate's own cfg(loom) seam routes its atomics to a shim whose yield points let the solver schedule another thread's operations between them; sequentially consistent interleavings with one thread preempted at a time.",
    "C05": "Bounded model checking with a failing allocator: each request an operation issues is refused in turn (thorough: solver-scheduled), in every storage state; Err/unchanged/usable/no leak asserted, plain forms may only panic in unwrap_with_msg after a refused request.",
    "C06": "Bounded model checking with the size argument fully symbolic over all 2^64 values (split into three classes that cover the range), Kani overflow checks on the real arithmetic, block-size accounting by the shim.",
    "C07": "Bounded model checking with the index fully symbolic, both polarities: accepted indices give String's result, must-panic indices make the sentinel behind the call unreachable and the only failed checks are the crate's index assertions (located from the source on every run); no allocator request before the panic.",
    "C08": "Bounded model checking: every cloning form runs inside a no-request region of the allocator shim; pointer identity, equality and independent drops asserted for all storage states, any capacity up to 2^40 and a 4 KiB text.",
    "C09": "Bounded model checking: request counter across every constructor for lengths 0..=24 and for every scalar value as the last char of a 16/17-byte text; no-request region around inline edits; integers via E2 (C14).",
    "C10": "Bounded model checking with the borrowed text in a harness-owned static array: pointer identity and no request for the read-only operations, correct migration for every writer, byte-for-byte pristine check of the array after every harness.",
    "C11": "Bounded model checking: capacity postconditions for all n (with_capacity, reserve), and no request / no move for every append or insert that fits the capacity reported before the call.",
    "C12": "Bounded model checking: for every growth event (inline->heap, static->heap, shared copy, realloc) with symbolic amounts the new capacity is within [1.5x old_len, max(1.5x, need)] and exactly one request is issued.",
    "C13": "Bounded model checking: shrink_to(m) for all m from heap/inline/static targets incl. shared buffers and len close to capacity; the five capacity clauses of the property asserted.",
    "C14": "Symbolic execution of the compiler's MIR of the integer formatter into z3 integer arithmetic (all values of the ten <=64-bit types and their NonZero forms; every MIR assert, memory access and the canonical-decimal postcondition discharged per feasible path, cvc5 cross-check, translator validated against the real code natively) plus Kani dispatch harnesses for all 24 types.",
    "C15": "Bounded model checking: every char, both bools, symbolic Strings, LeanString (same buffer) and a user Display impl writing 0..3 symbolic pieces or failing after any piece.",
    "C16": "Bounded model checking on small windows: 1..3 fully symbolic bytes (from_utf8) or one symbolic byte/u16 (lossy, utf16) inside concrete context crossing the inline limit, compared with std decoders and an independent validity predicate.",
    "C17": "Bounded model checking: the same symbolic text built by six different histories (stale bytes arbitrary) is ==, orders Equal, hashes and prints identically; two independent symbolic texts agree with reference results computed on raw arrays, in both argument orders vs str/&str/String/Cow.",
    "C19": "Bounded model checking with the serde and arbitrary features on: recording Serializer, serde::de::value deserializers over symbolic text/byte windows with a message-discarding error type, Unstructured over symbolic bytes compared with <&str>::arbitrary.",
    "C20": "Bounded model checking of layout constants, the niche for every possible 16th byte, and the C01-C03 boundary grid re-decided under no-default-features, all features and with debug assertions off.",
}
NOTE = {
    "C04": "Sequentially consistent interleavings only (Relaxed/Acquire/Release are not distinguished: a weakened ordering or missing fence is NOT detected); one thread preempted at a time (others' operations are atomic blocks); 2 threads quick / 3 thorough, <= 2 operations each; Kani itself is sequential - the sequentialisation is trusted.",
    "C07": "Bytes written in place into an exclusively owned buffer before a panic cannot be observed (no code runs at a panic point under Kani); post-unwind state not modelled.",
    "C14": "i128/u128 go through itoa (trusted; only dispatch checked). E2 trusts rustc's MIR and its own summaries of Repr::with_capacity/as_slice_mut/set_len etc. (listed in evidence, cross-checked end-to-end by Kani on u8/i8 and concrete extremes).",
    "C15": "f32/f64 round-trip is excluded (ryu + dec2flt are out of reach of bit-blasting); everything else of the property is claimed.",
    "C16": "Very small bounds: <= 3 fully symbolic bytes / 1 symbolic unit in concrete context; std's utf8_chunks/decode_utf16 shared by implementation and oracle are trusted.",
    "C20": "The optimiser is excluded: 'optimised vs unoptimised' is decided as debug-assertions on vs off on Kani's MIR-level semantics; no_std linking and 32-bit are outside.",
}
DEFAULT_NOTE = "x86_64 only; Kani 0.68/CBMC 6.11/CaDiCaL and Kani's malloc/free/memcpy models trusted; allocator shim via #[kani::stub]; ModelStr oracle validated natively against std::String on every run; bounds as in evidence.coverage.bounds (text <= 24 bytes, capacity <= 40, <= 3 handles per buffer, one symbolic step)."

# thorough tiers that were run end-to-end on the unchanged tree in this session (exit 0); the others are
# generated by lib/props.py (./check <id> --tier thorough) but are not registered, because a thorough
# command that has never completed could only be claimed on faith
THOROUGH_OK = []
try:
    THOROUGH_OK = [l.strip() for l in open(os.path.join(VERIF, "thorough_ok.txt")) if l.strip() and not l.startswith("#")]
except FileNotFoundError:
    pass

NOT_APPLICABLE = {
    "C18": "needs the state *after unwinding* (SetLenOnDrop guard, drop or non-drop of accumulators): Kani/CBMC model a panic as 'path ends' - no unwinding, no Drop on the panic path, and its panic hook cannot be stubbed; an own MIR interpreter with cleanup edges would check my model of Chars/encode_utf8/fmt rather than the code (DESIGN 7)",
}


def main():
    claimed = sorted(props.PLANS)
    import json as _j
    allp = [_j.loads(l)["id"] for l in open(os.path.join(VERIF, "properties.jsonl"))]
    checks = []
    for pid in allp:
        if pid not in props.PLANS or pid in NOT_APPLICABLE:
            continue
        plan = props.plan(pid, "quick", 0)
        entry_thorough = {"thorough_cmd": "./check %s --tier thorough" % pid} if pid in THOROUGH_OK else {}
        checks.append({
            "property_id": pid,
            "quick_cmd": "./check %s --tier quick" % pid,
            **entry_thorough,
            "evidence_file": "/verif/evidence/%s.json" % pid,
            "replay_cmd_template": "./check %s --replay {path}" % pid,
            "engine": "mir2smt+kani" if pid == "C14" else ("kani-seam" if pid == "C04" else "kani-std"),
            "level_claimed": {"category": "model_checking", "text": LEVEL_TEXT[pid], "design_ref": "DESIGN.md section 6 (%s), sections 3-5" % pid},
            "level_note": (NOTE.get(pid, "") + " " + DEFAULT_NOTE).strip(),
            "technique": plan.technique,
        })
    na = []
    for pid in allp:
        if pid in NOT_APPLICABLE:
            na.append({"property_id": pid, "reason": NOT_APPLICABLE[pid]})
        elif pid not in props.PLANS:
            na.append({"property_id": pid, "reason": "check not built yet in this session (see DESIGN.md section 6 for the intended solver-based check)"})
    m = {
        "version": 1,
        "setup_cmd": "./setup.sh",
        "hooks": {
            "guard": "none (no source hooks)",
            "enable": "nothing to enable: the allocator is intercepted by Kani stubs of alloc::alloc::{alloc,dealloc,realloc}, the atomics through the crate's own cfg(loom) seam ([patch] of the `loom` crate by /verif/kani/shims/loom), integers through the compiler's MIR dump",
            "baseline_off_cmd": "cd /repo && cargo test --workspace --no-fail-fast --offline",
            "source_commits": [],
            "add_only": True,
        },
        "engines": [
            {"name": "kani-std", "path": "/verif/kani/std", "serves_properties": [c["property_id"] for c in checks if c["engine"] != "kani-seam"],
             "kind_free_text": "Kani 0.68 proof harnesses (generated per run by /verif/lib/props.py) over the real crate via path dependency; CBMC 6.11 + CaDiCaL decide"},
            {"name": "mir2smt", "path": "/verif/lib/mir2smt.py", "serves_properties": ["C14", "C09"],
             "kind_free_text": "symbolic executor for rustc nightly MIR text -> z3 Int obligations, cvc5 cross-check, native replay crate /verif/mir2smt/replay"},
        ] + ([{"name": "kani-seam", "path": "/verif/kani/seam", "serves_properties": ["C04"],
               "kind_free_text": "the crate compiled with --cfg loom against a shim `loom` crate whose atomics are yield points; solver-scheduled sequentialisation"}] if "C04" in props.PLANS else []),
        "checks": checks,
        "not_applicable": na,
        "notes": "Exit codes of ./check: 0 held, 1 VIOLATION (replay file under /verif/replays), 2 inconclusive (timeout/OOM/solver unknown/vacuous cover/translator validation failure) - never success. known_findings.txt lists fixed defects (suppress nothing).",
    }
    json.dump(m, open(os.path.join(VERIF, "MANIFEST.json"), "w"), indent=1)
    print("claimed:", [c["property_id"] for c in checks], "n/a:", [x["property_id"] for x in na])


if __name__ == "__main__":
    main()
