"""E2: symbolic execution of rustc MIR (nightly -Zunpretty=mir) of lean_string's integer formatter,
discharged with z3 (Python API, integer arithmetic with explicit wrap side conditions) and
cross-checked with cvc5 on the SMT-LIB2 text of every obligation.

Encoded from the MIR text, regenerated from /repo's current source on every run:
  * `<T as NumToRepr>::into_repr` for i8,u8,i16,u16,i32,u32,isize,usize,i64,u64 and the NonZero wrappers
  * `<T as DigitCount>::digit_count` for the same types
  * the constant DEC_DIGITS_LUT
Summaries (stubs) for the calls inside: Repr::with_capacity (Ok => capacity max(16,n), exclusively
owned, length 0), Repr::as_slice_mut (pointer to byte 0, capacity long), slice as_ptr/as_mut_ptr,
ptr::add, copy_nonoverlapping(_,_,2), Repr::set_len, size_of::<T>, u64::wrapping_add, Try::branch,
FromResidual::from_residual, NonZero::get.

Obligations per feasible path: every MIR assert holds; every LUT read inside [0,200); every buffer
write inside [0,capacity); at return Ok: set_len(digits_count), curr == 0, every byte in
[0,digits_count) written, bytes are the canonical decimal of the input.
"""
import re, os, subprocess, time, json, shutil, tempfile
import z3

W = {"i8": 8, "u8": 8, "i16": 16, "u16": 16, "i32": 32, "u32": 32, "i64": 64, "u64": 64, "isize": 64, "usize": 64,
     "i128": 128, "u128": 128}
INT_TYPES = ["i8", "u8", "i16", "u16", "i32", "u32", "isize", "usize", "i64", "u64"]
WIDE_TYPES = ["i128", "u128"]


def signed(t):
    return t[0] == "i"


def tmin(t):
    return -(1 << (W[t] - 1)) if signed(t) else 0


def tmax(t):
    return (1 << (W[t] - 1)) - 1 if signed(t) else (1 << W[t]) - 1


# ------------------------------------------------------------------------------------------------
# MIR text parsing
# ------------------------------------------------------------------------------------------------
class Fn:
    def __init__(self, header, name, arg_ty, ret_ty):
        self.header, self.name, self.arg_ty, self.ret_ty = header, name, arg_ty, ret_ty
        self.locals = {}     # "_2" -> type string
        self.debug = {}      # debug name -> local
        self.blocks = {}     # "bb0" -> [lines]


def parse_mir(text):
    fns = []
    lut = None
    m = re.search(r'const DEC_DIGITS_LUT: &\[u8; 200\] = const b"((?:[^"\\]|\\.)*)";', text)
    if m:
        lut = m.group(1).encode().decode("unicode_escape").encode("latin1")
    cur = None
    block = None
    for line in text.splitlines():
        hm = re.match(r"^fn (.*?)\((_1: (.*?))?\) -> (.*) \{$", line)
        if hm and not line.startswith(" "):
            cur = Fn(line, hm.group(1), hm.group(3), hm.group(4))
            fns.append(cur)
            block = None
            continue
        if cur is None:
            continue
        if line == "}":
            cur = None
            continue
        s = line.strip()
        lm = re.match(r"^let (?:mut )?(_\d+): (.*);$", s)
        if lm:
            cur.locals[lm.group(1)] = lm.group(2)
            continue
        dm = re.match(r"^debug (\w+) => (_\d+);$", s)
        if dm:
            cur.debug.setdefault(dm.group(1), []).append(dm.group(2))
            continue
        bm = re.match(r"^(bb\d+)(?: \(cleanup\))?: \{$", s)
        if bm:
            block = bm.group(1)
            cur.blocks[block] = []
            continue
        if s == "}":
            block = None
            continue
        if block is not None and s:
            cur.blocks[block].append(s)
    return fns, lut


def find_fn(fns, kind, ty):
    """kind: 'into_repr' | 'digit_count'; ty: 'i16' or 'NonZero<i16>'"""
    for f in fns:
        if f.name.startswith("num_to_repr::") and f.name.endswith("::" + kind) and f.arg_ty == ty:
            return f
    return None


# ------------------------------------------------------------------------------------------------
# symbolic values
# ------------------------------------------------------------------------------------------------
class IntV:
    def __init__(self, e, ty):
        self.e, self.ty = e, ty


class BoolV:
    def __init__(self, e):
        self.e = e


class PtrV:
    def __init__(self, region, off):
        self.region, self.off = region, off


class TupV:
    def __init__(self, items):
        self.items = items


class Obj:
    def __init__(self, kind, **kw):
        self.kind = kind
        self.__dict__.update(kw)


class PathEnd(Exception):
    pass


class Unsupported(Exception):
    pass


class Ctx:
    """One execution context shared by all paths of one top-level function."""

    def __init__(self, fns, lut, lut_lemma):
        self.fns, self.lut, self.lut_lemma = fns, lut, lut_lemma
        self.fresh = 0
        self.obligations = []   # (name, path_cond list, claim expr, info)
        self.paths = []         # finished paths: dict
        self.solver_time = 0.0
        self.feas_queries = 0
        self.stubs_used = set()
        self.functions = set()

    def new_int(self, prefix):
        self.fresh += 1
        return z3.Int("%s_%d" % (prefix, self.fresh))


def const_value(tok):
    """'const 10000_u64' / 'const -99_i8' / 'const i8::MIN' / 'const 1_i32' -> IntV"""
    t = tok.strip()
    assert t.startswith("const "), t
    t = t[6:]
    m = re.match(r"^(-?\d+)_(\w+)$", t)
    if m:
        return IntV(z3.IntVal(int(m.group(1))), m.group(2))
    m = re.match(r"^core::num::<impl (\w+)>::(MIN|MAX)$", t)
    if m:
        ty = m.group(1)
        return IntV(z3.IntVal(tmin(ty) if m.group(2) == "MIN" else tmax(ty)), ty)
    m = re.match(r"^(\w+)::(MIN|MAX)$", t)
    if m:
        ty = m.group(1)
        return IntV(z3.IntVal(tmin(ty) if m.group(2) == "MIN" else tmax(ty)), ty)
    if t in ("true", "false"):
        return BoolV(z3.BoolVal(t == "true"))
    raise Unsupported("constant " + tok)


def split_args(s):
    out, depth, cur = [], 0, ""
    for ch in s:
        if ch in "(<[":
            depth += 1
        elif ch in ")>]":
            depth -= 1
        if ch == "," and depth == 0:
            out.append(cur.strip())
            cur = ""
        else:
            cur += ch
    if cur.strip():
        out.append(cur.strip())
    return out


class Frame:
    def __init__(self, fn, arg):
        self.fn = fn
        self.env = {"_1": arg}


class Path:
    """State of one path: path condition, frames, memory."""

    def __init__(self, ctx):
        self.ctx = ctx
        self.pc = []
        self.buf_writes = []      # [(offset expr, value expr)]
        self.repr = None          # Obj('repr', cap=..., set_len=None)
        self.alloc_request = None
        self.loop_iters = 0
        self.trace = []
        self.final_env = {}
        self.divs = {}
        self.frames = []
        self.dectext = None

    def clone(self):
        p = Path(self.ctx)
        p.pc = list(self.pc)
        p.buf_writes = list(self.buf_writes)
        p.repr = Obj("repr", **{k: v for k, v in self.repr.__dict__.items() if k != "kind"}) if self.repr else None
        p.alloc_request = self.alloc_request
        p.loop_iters = self.loop_iters
        p.trace = list(self.trace)
        p.final_env = dict(self.final_env)
        p.divs = dict(self.divs)
        p.frames = list(self.frames)
        p.dectext = self.dectext
        return p

    def feasible(self, extra=None):
        s = z3.Solver()
        s.set("timeout", 60000)
        for c in self.pc:
            s.add(c)
        if extra is not None:
            s.add(extra)
        t0 = time.time()
        r = s.check()
        self.ctx.solver_time += time.time() - t0
        self.ctx.feas_queries += 1
        if r == z3.unknown:
            raise Unsupported("feasibility query returned unknown")
        return r == z3.sat

    def oblige(self, name, claim, info=""):
        self.ctx.obligations.append((name, list(self.pc), claim, info))


def wrap_to(e, ty):
    """Reduce a mathematical integer to the value range of `ty` (two's complement wrap)."""
    w = W[ty]
    m = 1 << w
    if signed(ty):
        h = 1 << (w - 1)
        return ((e + h) % m) - h
    return e % m


def ite(path, cond, a, b):
    """`If(cond, a, b)`, resolved to one arm when the path condition already decides `cond`
    (two solver queries; keeps the terms linear for the arithmetic obligations)."""
    cs = z3.simplify(cond)
    if z3.is_true(cs):
        return a
    if z3.is_false(cs):
        return b
    if path is not None:
        if not path.feasible(cond):
            return b
        if not path.feasible(z3.Not(cond)):
            return a
    return z3.If(cond, a, b)


def wrap_once(e, ty, path=None):
    """Wrap a value known to lie within one modulus of the type's range (single add/sub/double of
    in-range operands): exact two's-complement result without `mod`."""
    m = 1 << W[ty]
    return ite(path, e > tmax(ty), e - m, ite(path, e < tmin(ty), e + m, e))


def cast(v, to_ty, path=None):
    src = v.ty
    if tmin(src) >= tmin(to_ty) and tmax(src) <= tmax(to_ty):
        return IntV(v.e, to_ty)          # value-preserving
    if signed(src) and not signed(to_ty) and W[to_ty] >= W[src]:
        return IntV(ite(path, v.e < 0, v.e + (1 << W[to_ty]), v.e), to_ty)   # sign extension then reinterpret
    if path is not None and path.feasible(z3.Or(v.e < tmin(to_ty), v.e > tmax(to_ty))) is False:
        return IntV(v.e, to_ty)          # the path condition bounds the value inside the target range
    return IntV(wrap_to(v.e, to_ty), to_ty)


class Exec:
    LOOP_BOUND = 6

    def __init__(self, ctx):
        self.ctx = ctx

    # ----- operand evaluation
    def operand(self, fr, tok):
        tok = tok.strip()
        if tok.startswith("const "):
            if "DEC_DIGITS_LUT" in tok:
                return Obj("lutref")
            if "Err(" in tok:
                return Obj("residual_err")
            return const_value(tok)
        m = re.match(r"^(?:copy |move )?(_\d+)$", tok)
        if m:
            return fr.env[m.group(1)]
        m = re.match(r"^(?:copy |move )?\((_\d+)\.(\d+): [^)]*\)$", tok)
        if m:
            return fr.env[m.group(1)].items[int(m.group(2))]
        m = re.match(r"^(?:copy |move )?\(\((_\d+) as (\w+)\)\.0: .*\)$", tok)
        if m:
            v = fr.env[m.group(1)]
            return v.payload
        raise Unsupported("operand " + tok)

    # ----- rvalues
    def rvalue(self, path, fr, dst_ty, rhs):
        rhs = rhs.strip()
        m = re.match(r"^(.*) as (\w+) \(IntToInt\)$", rhs)
        if m:
            return cast(self.operand(fr, m.group(1)), m.group(2), path)
        m = re.match(r"^(.*) as &\[u8\] \(PointerCoercion\(Unsize, Implicit\)\)$", rhs)
        if m:
            v = self.operand(fr, m.group(1))
            return Obj("slice", region="LUT", length=z3.IntVal(200)) if v.kind == "lutref" else v
        m = re.match(r"^&(?:mut )?(_\d+)$", rhs)
        if m:
            return Obj("ref", target=m.group(1))
        m = re.match(r"^discriminant\((_\d+)\)$", rhs)
        if m:
            v = fr.env[m.group(1)]
            return IntV(z3.IntVal(v.discr), "isize")
        m = re.match(r"^Result::<.*>::Ok\((.*)\)$", rhs)
        if m:
            return Obj("result", ok=True, payload=self.operand(fr, m.group(1)))
        m = re.match(r"^(\w+)\((.*)\)$", rhs)
        if m and m.group(1) in ("Not", "Ge", "Gt", "Le", "Lt", "Eq", "Ne", "Rem", "Div", "Shl", "Shr", "Add", "Sub", "Mul",
                                "AddWithOverflow", "SubWithOverflow", "MulWithOverflow", "BitAnd", "BitOr"):
            op = m.group(1)
            args = [self.operand(fr, a) for a in split_args(m.group(2))]
            return self.binop(path, op, args)
        return self.operand(fr, rhs)

    def binop(self, path, op, a):
        if op == "Not":
            v = a[0]
            if isinstance(v, BoolV):
                return BoolV(z3.Not(v.e))
            if signed(v.ty):
                return IntV(-v.e - 1, v.ty)
            return IntV(tmax(v.ty) - v.e, v.ty)
        x, y = a
        if op in ("Ge", "Gt", "Le", "Lt", "Eq", "Ne"):
            f = {"Ge": lambda p, q: p >= q, "Gt": lambda p, q: p > q, "Le": lambda p, q: p <= q, "Lt": lambda p, q: p < q,
                 "Eq": lambda p, q: p == q, "Ne": lambda p, q: p != q}[op]
            return BoolV(f(x.e, y.e))
        ty = x.ty
        if op in ("Div", "Rem"):
            if not z3.is_int_value(y.e):
                raise Unsupported("division by a non-constant")
            c = y.e.as_long()
            if c <= 0:
                raise Unsupported("division by non-positive constant")
            if signed(ty):
                raise Unsupported("signed division")
            # division lemma: x = c*q + r, 0 <= r < c (x >= 0 for unsigned types); Div and Rem of the
            # same operand by the same constant share one (q, r) pair (Euclidean division is unique)
            key = (x.e.sexpr(), c)
            if key in path.divs:
                q, r = path.divs[key]
            else:
                q = self.ctx.new_int("q")
                r = self.ctx.new_int("r")
                path.pc.append(z3.And(x.e == c * q + r, r >= 0, r < c, q >= 0))
                path.divs[key] = (q, r)
            return IntV(q if op == "Div" else r, ty)
        if op == "Shl":
            if not z3.is_int_value(y.e):
                raise Unsupported("shift by a non-constant")
            k = y.e.as_long()
            if k == 1 and not signed(ty):
                return IntV(wrap_once(x.e * 2, ty, path), ty)
            return IntV(wrap_to(x.e * (1 << k), ty), ty)
        if op == "Shr":
            k = y.e.as_long()
            if signed(ty):
                raise Unsupported("signed shr")
            q = self.ctx.new_int("q")
            r = self.ctx.new_int("r")
            path.pc.append(z3.And(x.e == (1 << k) * q + r, r >= 0, r < (1 << k), q >= 0))
            return IntV(q, ty)
        if op in ("AddWithOverflow", "SubWithOverflow", "MulWithOverflow"):
            raw = {"A": x.e + y.e, "S": x.e - y.e, "M": x.e * y.e}[op[0]]
            ovf = z3.Or(raw < tmin(ty), raw > tmax(ty))
            if not path.feasible(ovf):
                return TupV([IntV(raw, ty), BoolV(z3.BoolVal(False))])
            wrapped = wrap_once(raw, ty, path) if op[0] in "AS" else wrap_to(raw, ty)
            return TupV([IntV(wrapped, ty), BoolV(ovf)])
        if op in ("Add", "Sub", "Mul"):
            raw = {"A": x.e + y.e, "S": x.e - y.e, "M": x.e * y.e}[op[0]]
            return IntV(wrap_once(raw, ty, path) if op[0] in "AS" else wrap_to(raw, ty), ty)
        raise Unsupported("binop " + op)

    # ----- memory
    def lut_read(self, path, off, what):
        """byte of DEC_DIGITS_LUT at symbolic offset `off`"""
        path.oblige("LUT read in bounds (%s)" % what, z3.And(off >= 0, off < 200))
        if self.ctx.lut_lemma:
            # LUT[2k] = '0'+k/10, LUT[2k+1] = '0'+k%10 was checked on the 200 concrete bytes of this dump
            k = self.ctx.new_int("k")
            j = self.ctx.new_int("j")
            t = self.ctx.new_int("t")
            u = self.ctx.new_int("u")
            path.pc.append(z3.And(off == 2 * k + j, j >= 0, j <= 1, k == 10 * t + u, u >= 0, u <= 9, t >= 0))
            return z3.If(j == 0, 48 + t, 48 + u)
        arr = z3.K(z3.IntSort(), z3.IntVal(0))
        for i, b in enumerate(self.ctx.lut):
            arr = z3.Store(arr, i, int(b))
        return z3.Select(arr, off)

    def buf_write(self, path, off, val, what):
        path.oblige("buffer write in bounds (%s)" % what, z3.And(off >= 0, off < path.repr.cap))
        path.buf_writes.append((off, val))

    # ----- calls
    def call(self, path, fr, dst, callee, args_s, conts):
        """returns list of (path, value) continuations (calls may fork)"""
        ctx = self.ctx
        args = [self.operand(fr, a) for a in split_args(args_s)] if args_s.strip() else []
        m = re.match(r"^<(\w+) as (?:repr::num_to_repr::)?DigitCount>::digit_count$", callee)
        if m:
            f = find_fn(ctx.fns, "digit_count", m.group(1))
            if f is None:
                raise Unsupported("no MIR for digit_count of " + m.group(1))
            return self.run_fn(path, f, args[0])
        m = re.match(r"^<(\w+) as (?:repr::num_to_repr::)?NumToRepr>::into_repr$", callee)
        if m:
            f = find_fn(ctx.fns, "into_repr", m.group(1))
            if f is None:
                raise Unsupported("no MIR for into_repr of " + m.group(1))
            return self.run_fn(path, f, args[0])
        m = re.match(r"^NonZero::<(\w+)>::get$", callee)
        if m:
            ctx.stubs_used.add("NonZero::get (identity; value != 0)")
            return [(path, IntV(args[0].e, m.group(1)))]
        m = re.match(r"^core::num::<impl (\w+)>::wrapping_add$", callee)
        if m:
            ctx.stubs_used.add("wrapping_add")
            return [(path, IntV(wrap_once(args[0].e + args[1].e, m.group(1), path), m.group(1)))]
        if callee == "itoa::Buffer::new":
            ctx.stubs_used.add("itoa::Buffer::new / format (trusted: yields the canonical decimal of its argument)")
            return [(path, Obj("itoabuf"))]
        m = re.match(r"^itoa::Buffer::format::<(\w+)>$", callee)
        if m:
            return [(path, Obj("dectext", value=args[1].e, ty=m.group(1)))]
        if callee.endswith("repr::Repr::from_str") or callee == "Repr::from_str":
            ctx.stubs_used.add("Repr::from_str (Ok: holds exactly the given text; or Err)")
            t = args[0]
            if not isinstance(t, Obj) or t.kind != "dectext":
                raise Unsupported("Repr::from_str of something that is not an itoa text")
            ok = path
            err = path.clone()
            ok.dectext = t.value
            return [(ok, Obj("result", ok=True, payload=Obj("reprval"))), (err, Obj("result", ok=False, payload=None))]
        m = re.match(r"^core::num::<impl (\w+)>::unsigned_abs$", callee)
        if m:
            ctx.stubs_used.add("unsigned_abs")
            ty = m.group(1)
            return [(path, IntV(ite(path, args[0].e < 0, -args[0].e, args[0].e), "u" + ty[1:]))]
        if callee.endswith("repr::Repr::with_capacity") or callee == "Repr::with_capacity":
            ctx.stubs_used.add("Repr::with_capacity (Ok: capacity max(16,n), len 0, exclusively owned; or Err)")
            n = args[0].e
            path.oblige("with_capacity argument <= 20 (summary precondition)", z3.And(n >= 1, n <= 20))
            ok = path
            err = path.clone()
            ok.repr = Obj("repr", cap=z3.If(n > 16, n, z3.IntVal(16)), set_len=None, requested=n)
            ok.alloc_request = n
            return [(ok, Obj("result", ok=True, payload=Obj("reprval"))), (err, Obj("result", ok=False, payload=None))]
        if "as Try>::branch" in callee:
            ctx.stubs_used.add("Try::branch")
            r = args[0]
            return [(path, Obj("cf", discr=0 if r.ok else 1, payload=r.payload))]
        if "FromResidual" in callee and "from_residual" in callee:
            ctx.stubs_used.add("FromResidual::from_residual")
            return [(path, Obj("result", ok=False, payload=None))]
        if callee.endswith("Repr::as_slice_mut"):
            ctx.stubs_used.add("Repr::as_slice_mut (pointer to byte 0, length = capacity)")
            return [(path, Obj("slice", region="BUF", length=path.repr.cap))]
        if re.search(r"slice::<impl \[u8\]>::as_(mut_)?ptr$", callee):
            ctx.stubs_used.add("slice::as_ptr/as_mut_ptr")
            return [(path, PtrV(args[0].region, z3.IntVal(0)))]
        m = re.match(r"^core::mem::size_of::<(\w+)>$", callee)
        if m:
            ctx.stubs_used.add("size_of::<T>")
            return [(path, IntV(z3.IntVal(W[m.group(1)] // 8), "usize"))]
        if re.search(r"ptr::(const_ptr|mut_ptr)::<impl \*(const|mut) u8>::add$", callee):
            ctx.stubs_used.add("ptr::add")
            p, k = args
            lim = z3.IntVal(200) if p.region == "LUT" else path.repr.cap
            path.oblige("ptr::add stays inside the allocation (%s)" % p.region, z3.And(p.off + k.e >= 0, p.off + k.e <= lim))
            return [(path, PtrV(p.region, p.off + k.e))]
        if "ptr::copy_nonoverlapping::<u8>" in callee:
            ctx.stubs_used.add("copy_nonoverlapping(_,_,2)")
            src, dstp, cnt = args
            if not z3.is_int_value(cnt.e):
                raise Unsupported("copy_nonoverlapping with symbolic count")
            n = cnt.e.as_long()
            if src.region != "LUT" or dstp.region != "BUF":
                raise Unsupported("copy_nonoverlapping between unexpected regions")
            if n == 2 and self.ctx.lut_lemma:
                # two-digit copy under the LUT lemma (LUT[2k],LUT[2k+1] = '0'+k/10,'0'+k%10, checked on
                # the concrete bytes of this dump): the source offset must be even, then one k serves both bytes
                o = src.off
                k = self.ctx.new_int("k")
                j = self.ctx.new_int("j")
                t = self.ctx.new_int("t")
                u = self.ctx.new_int("u")
                path.pc.append(z3.And(o == 2 * k + j, j >= 0, j <= 1))
                path.oblige("LUT pair read at an even offset", j == 0)
                path.oblige("LUT read in bounds (pair)", z3.And(o >= 0, o + 1 < 200))
                path.pc.append(z3.And(j == 0, k == 10 * t + u, u >= 0, u <= 9, t >= 0))
                self.buf_write(path, dstp.off, 48 + t, "copy dst+0")
                self.buf_write(path, dstp.off + 1, 48 + u, "copy dst+1")
                return [(path, Obj("unit"))]
            for i in range(n):
                b = self.lut_read(path, src.off + i, "copy src+%d" % i)
                self.buf_write(path, dstp.off + i, b, "copy dst+%d" % i)
            return [(path, Obj("unit"))]
        if callee.endswith("Repr::set_len"):
            ctx.stubs_used.add("Repr::set_len")
            path.oblige("set_len argument <= capacity", args[1].e <= path.repr.cap)
            path.repr.set_len = args[1].e
            return [(path, Obj("unit"))]
        raise Unsupported("call to " + callee)

    # ----- function execution: returns list of (path, return value)
    def run_fn(self, path, fn, arg):
        self.ctx.functions.add("lean_string::repr::%s(%s)" % (fn.name.split("::")[-1], fn.arg_ty))
        results = []
        work = [(path, Frame(fn, arg), "bb0", {})]
        while work:
            p, fr, bb, visits = work.pop()
            try:
                self.run_block(p, fr, bb, visits, work, results)
            except PathEnd:
                pass
        return results

    def run_block(self, p, fr, bb, visits, work, results):
        ctx = self.ctx
        fn = fr.fn
        while True:
            visits = dict(visits)
            visits[bb] = visits.get(bb, 0) + 1
            if visits[bb] > self.LOOP_BOUND:
                # unwinding obligation: this point must be unreachable
                p.oblige("loop bound %d suffices in %s" % (self.LOOP_BOUND, fn.arg_ty), z3.BoolVal(False), "unwinding")
                raise PathEnd()
            lines = fn.blocks[bb]
            for ln in lines[:-1]:
                self.statement(p, fr, ln)
            term = lines[-1]
            if term == "return;":
                p.final_env[fn.arg_ty + "/" + fn.name.split("::")[-1]] = (fn, dict(fr.env))
                p.frames = p.frames + [(fn, dict(fr.env))]
                results.append((p, fr.env.get("_0")))
                return
            if term == "unreachable;":
                p.oblige("MIR `unreachable` not reached in %s" % fn.arg_ty, z3.BoolVal(False))
                raise PathEnd()
            m = re.match(r"^goto -> (bb\d+);$", term)
            if m:
                bb = m.group(1)
                continue
            m = re.match(r"^switchInt\((.*)\) -> \[(.*)\];$", term)
            if m:
                v = self.operand(fr, m.group(1))
                targets = [t.strip() for t in m.group(2).split(",")]
                taken = []
                others = []
                for t in targets:
                    k, dest = [x.strip() for x in t.split(":")]
                    if k == "otherwise":
                        cond = z3.And([z3.Not(c) for c in others]) if others else z3.BoolVal(True)
                    else:
                        kv = int(k)
                        if isinstance(v, BoolV):
                            cond = z3.Not(v.e) if kv == 0 else v.e
                        else:
                            cond = v.e == kv
                        others.append(cond)
                    taken.append((cond, dest))
                feas = []
                for cond, dest in taken:
                    cs = z3.simplify(cond)
                    if z3.is_false(cs):
                        continue
                    if z3.is_true(cs) or p.feasible(cond):
                        feas.append((cond, dest))
                if not feas:
                    raise PathEnd()
                for cond, dest in feas[1:]:
                    q = p.clone()
                    q.pc.append(cond)
                    fr2 = Frame(fn, None)
                    fr2.env = dict(fr.env)
                    work.append((q, fr2, dest, visits))
                p.pc.append(feas[0][0])
                bb = feas[0][1]
                continue
            m = re.match(r'^assert\((!?)(.*?), "(.*?)"(?:, .*)?\) -> \[success: (bb\d+), unwind.*\];$', term)
            if m:
                c = self.operand(fr, m.group(2))
                cond = z3.Not(c.e) if m.group(1) else c.e
                p.oblige("MIR assert: %s" % m.group(3)[:60], cond, fn.arg_ty)
                p.pc.append(cond)
                bb = m.group(4)
                continue
            m = re.match(r"^(_\d+) = (.*?)\((.*)\) -> \[return: (bb\d+), unwind.*\];$", term)
            if m:
                dst, callee, args_s, nxt = m.groups()
                outs = self.call(p, fr, dst, callee, args_s, None)
                first = True
                for (q, val) in outs:
                    if q is p:
                        continue
                    fr2 = Frame(fn, None)
                    fr2.env = dict(fr.env)
                    fr2.env[dst] = val
                    work.append((q, fr2, nxt, visits))
                mine = [val for (q, val) in outs if q is p]
                if not mine:
                    raise PathEnd()
                fr.env[dst] = mine[0]
                bb = nxt
                continue
            raise Unsupported("terminator: " + term)

    def statement(self, p, fr, ln):
        if ln.startswith("StorageLive") or ln.startswith("StorageDead") or ln.startswith("nop") or ln.startswith("FakeRead") \
                or ln.startswith("PlaceMention") or ln.startswith("AscribeUserType") or ln.startswith("Retag") or ln.startswith("ConstEvalCounter"):
            return
        m = re.match(r"^\(\*(_\d+)\) = (.*);$", ln)
        if m:
            ptr = fr.env[m.group(1)]
            v = self.rvalue(p, fr, None, m.group(2))
            if ptr.region != "BUF":
                raise Unsupported("store through a non-buffer pointer")
            self.buf_write(p, ptr.off, v.e, "store")
            return
        m = re.match(r"^(_\d+) = (.*);$", ln)
        if m:
            fr.env[m.group(1)] = self.rvalue(p, fr, fr.fn.locals.get(m.group(1)), m.group(2))
            return
        raise Unsupported("statement: " + ln)


# ------------------------------------------------------------------------------------------------
# obligations for one type
# ------------------------------------------------------------------------------------------------
def check_lut_lemma(lut):
    if lut is None or len(lut) != 200:
        return False
    for k in range(100):
        if lut[2 * k] != 48 + k // 10 or lut[2 * k + 1] != 48 + k % 10:
            return False
    return True


def encode_type(fns, lut, ty, nonzero=False, pin=None):
    """Symbolically execute into_repr for `ty`.  Returns ctx with obligations incl. the final ones.
    `pin`: constrain the input to one concrete value (translator validation / replay)."""
    lemma = check_lut_lemma(lut)
    ctx = Ctx(fns, lut, lemma)
    ex = Exec(ctx)
    arg_ty = "NonZero<%s>" % ty if nonzero else ty
    fn = find_fn(fns, "into_repr", arg_ty)
    if fn is None:
        raise Unsupported("no MIR for into_repr(%s)" % arg_ty)
    v = z3.Int("input")
    p0 = Path(ctx)
    p0.pc.append(z3.And(v >= tmin(ty), v <= tmax(ty)))
    if nonzero:
        p0.pc.append(v != 0)
    if pin is not None:
        p0.pc.append(v == pin)
    outs = ex.run_fn(p0, fn, IntV(v, ty))
    finals = []
    for (p, ret) in outs:
        if not isinstance(ret, Obj) or ret.kind != "result":
            raise Unsupported("unexpected return value")
        if not ret.ok:
            ctx.paths.append({"kind": "Err (allocation refused)", "pc": p.pc})
            continue
        # the innermost frame that wrote digits itself (an integer-writer instance), if any
        writer = None
        for (f, env) in p.frames:
            if f.name.endswith("::into_repr") and "curr" in f.debug and "digits_count" in f.debug:
                writer = (f, env)
                break
        if writer is not None:
            infn, env = writer
            curr = env[infn.debug["curr"][0]].e
            dc = env[infn.debug["digits_count"][0]].e
            inner_v = env["_1"].e
            inner_ty = infn.arg_ty
            dcv = final_obligations(ctx, inner_v, inner_ty, p, curr, dc)
            p.oblige("the value formatted is the input value (no lossy cast on the way)", inner_v == v)
            finals.append((p, dcv))
        elif p.dectext is not None:
            p.oblige("the text handed to Repr::from_str is the decimal text of the input", p.dectext == v)
            finals.append((p, -1))
        else:
            raise Unsupported("Ok result that was neither written digit by digit nor produced by itoa")
    return ctx, v, finals


def final_obligations(ctx, v, ty, p, env_curr, digits_count):
    """canonical-decimal obligations at `return Ok` of path p"""
    dc = digits_count
    p.oblige("set_len was called with digits_count", p.repr.set_len == dc if p.repr.set_len is not None else z3.BoolVal(False))
    p.oblige("curr == 0 at return", env_curr == 0)
    # digits_count is a literal on every path (digit_count returns constants); get its value
    s = z3.Solver()
    for c in p.pc:
        s.add(c)
    assert s.check() == z3.sat
    dcv = s.model().eval(dc, model_completion=True).as_long()
    p.oblige("digits_count is the literal %d on this path" % dcv, dc == dcv)
    # final memory as an array
    offs = [z3.simplify(off) for (off, _) in p.buf_writes]
    if all(z3.is_int_value(o) for o in offs):
        # every write offset is a literal on this path: resolve the final memory syntactically
        mem = {}
        for o, (_, val) in zip(offs, p.buf_writes):
            mem[o.as_long()] = val
        bytes_ = [mem.get(i, z3.IntVal(-1)) for i in range(dcv)]
        for i in range(dcv):
            p.oblige("byte %d of %d was written" % (i, dcv), z3.BoolVal(i in mem))
    else:
        arr = z3.K(z3.IntSort(), z3.IntVal(-1))
        for (off, val) in p.buf_writes:
            arr = z3.Store(arr, off, val)
        bytes_ = [z3.Select(arr, i) for i in range(dcv)]
        for i in range(dcv):
            written = z3.Or([off == i for (off, _) in p.buf_writes]) if p.buf_writes else z3.BoolVal(False)
            p.oblige("byte %d of %d was written" % (i, dcv), written)
    neg = v < 0
    a = z3.If(neg, -v, v)
    # sign
    if dcv >= 1:
        p.oblige("'-' exactly for negative values", z3.If(neg, bytes_[0] == 45, z3.And(bytes_[0] >= 48, bytes_[0] <= 57)))
    first_digit = z3.If(neg, 1, 0)
    # digits and value (positions are literals; the sign shifts them by one)
    for signflag, start in ((True, 1), (False, 0)):
        cond = neg if signflag else z3.Not(neg)
        L = dcv - start
        if L <= 0:
            p.oblige("at least one digit (%s)" % ("neg" if signflag else "nonneg"), z3.Not(cond))
            continue
        digs = bytes_[start:]
        rng = z3.And([z3.And(d >= 48, d <= 57) for d in digs])
        terms = [(digs[i] - 48) * (10 ** (L - 1 - i)) for i in range(L)]
        val = terms[0] if L == 1 else z3.Sum(terms)
        nolead = z3.Or(digs[0] != 48, L == 1)
        p.oblige("digits are '0'..'9' (%s)" % ("neg" if signflag else "nonneg"), z3.Implies(cond, rng))
        p.oblige("Horner value of the digits equals |n| (%s)" % ("neg" if signflag else "nonneg"), z3.Implies(cond, val == a))
        p.oblige("no leading zero (%s)" % ("neg" if signflag else "nonneg"), z3.Implies(cond, nolead))
    # C09: <= 16 digits -> with_capacity(n<=16) (inline, no request); otherwise exactly the length
    p.oblige("with_capacity argument equals digits_count", p.alloc_request == dc)
    return dcv
