import os, sys, json, time, re, subprocess, shutil
import kanirun
from kanirun import VERIF, BUILD, Case

EVID = os.path.join(VERIF, "evidence")
REPLAYS = os.path.join(VERIF, "replays")
KNOWN = os.path.join(VERIF, "known_findings.txt")


class Group:
    """A set of harnesses compiled together in one configuration of the crate under test."""

    def __init__(self, cases, crate="std", variant="std", rustflags="", features=None, no_default=False, note=""):
        self.cases, self.crate, self.variant = cases, crate, variant
        self.rustflags, self.features, self.no_default, self.note = rustflags, features, no_default, note


class Plan:
    def __init__(self, prop, groups, bounds, outside, assumptions, rule, technique, harness_timeout=600,
                 pre=None, extra=None, level="model_checking"):
        self.prop, self.groups, self.bounds, self.outside = prop, groups, bounds, outside
        self.assumptions, self.rule, self.technique = assumptions, rule, technique
        self.harness_timeout = harness_timeout
        self.pre = pre or []          # callables run before the solver (translator validation); return (ok, info)
        self.extra = extra            # callable(tier, seed) -> dict(result pieces) for non-Kani engines (E2)
        self.level = level


def load_known(prop):
    known = []
    if os.path.exists(KNOWN):
        for line in open(KNOWN):
            line = line.strip()
            m = re.match(r"known:\s+property=(\S+)\s+site=(\S+)\s+(.*)$", line)
            if m and m.group(1) == prop:
                known.append((m.group(2), m.group(3)))
    return known


def signature(check):
    """Stable signature of a failed check: literal message + function (generic arguments stripped)."""
    fn = re.sub(r"<[^<>]*>", "", check.get("func", ""))
    fn = re.sub(r"<[^<>]*>", "", fn)
    desc = re.sub(r"\s+", "_", check["desc"].strip())[:80]
    return "%s@%s" % (desc, fn.split("::")[-1] if fn else "")


def validate_model():
    """Translator validation of the oracle: ModelStr vs std::string::String, natively."""
    t0 = time.time()
    env = dict(os.environ)
    env["CARGO_NET_OFFLINE"] = "true"
    env["CARGO_TARGET_DIR"] = os.path.join(BUILD, "target", "native")
    p = subprocess.run(["cargo", "test", "--offline", "--quiet", "--test", "model_vs_string"],
                       cwd=os.path.join(VERIF, "kani", "std"), env=env, capture_output=True, text=True)
    ok = p.returncode == 0
    m = re.search(r"(\d+) passed", p.stdout)
    return ok, {"name": "ModelStr vs std::String differential corpus (native)", "ok": ok,
                "tests_passed": int(m.group(1)) if m else 0, "sequences": 400 if ok else 0, "wall_s": round(time.time() - t0, 1),
                "tail": (p.stdout + p.stderr)[-400:] if not ok else ""}


def write_evidence(prop, tier, seed, level, coverage, assumptions, wall, violations, extra=None):
    os.makedirs(EVID, exist_ok=True)
    ev = {"property_id": prop, "tier": tier, "seed": seed, "level": level, "coverage": coverage,
          "assumptions": assumptions, "wall_s": round(wall, 1), "violations": violations}
    if extra:
        ev.update(extra)
    tmp = os.path.join(EVID, prop + ".json.tmp")
    with open(tmp, "w") as f:
        json.dump(ev, f, indent=1, default=str)
    os.replace(tmp, os.path.join(EVID, prop + ".json"))


def main(prop, tier, seed, args):
    import props
    t0 = time.time()
    if args.replay:
        import replay
        return replay.replay_file(args.replay)
    plan = props.plan(prop, tier, seed)
    if plan is None:
        print("property %s is not claimed (see MANIFEST.json not_applicable)" % prop)
        return 2
    if args.list:
        for g in plan.groups:
            for c in g.cases:
                print(g.variant, c.name, "::", c.body)
        return 0
    os.makedirs(os.path.join(BUILD, "logs"), exist_ok=True)
    inconclusive = []
    validations = []
    for pre in plan.pre:
        ok, info = pre()
        validations.append(info)
        if not ok:
            inconclusive.append("translator validation failed: %s" % info.get("name"))
    known = load_known(prop)
    known_hit = {}
    violations = []   # (case, group, reasons, bad checks)
    per_case = []
    functions = set()
    solver_time = 0.0
    queries = 0
    discharged = 0
    checks_total = 0
    nontrivial = set()
    only = re.compile(args.only) if args.only else None
    extra_box = {}
    extra_thread = None
    if plan.extra:
        # the second engine (MIR->SMT) runs concurrently with the Kani groups (it is single-threaded)
        import threading
        def _run_extra():
            try:
                extra_box["res"] = plan.extra(tier, seed)
            except Exception as e:   # an engine crash is inconclusive, never success
                extra_box["res"] = {"inconclusive": ["second engine crashed: %r" % (e,)]}
        extra_thread = threading.Thread(target=_run_extra)
        extra_thread.start()
    for gi, g in enumerate(plan.groups):
        cases = [c for c in g.cases if (only is None or only.search(c.name))]
        if not cases:
            continue
        workname = "%s-%s-%d" % (prop, tier, gi)
        work = kanirun.prepare_crate(g.crate, workname, cases, **({'prelude': g.prelude} if getattr(g, 'prelude', None) else {}))
        log = os.path.join(BUILD, "logs", workname + ".log")
        results, wall, build_ok, tail, rc = kanirun.run_kani(work, g.variant, cases, log, plan.harness_timeout,
                                                             extra_rustflags=g.rustflags, features=g.features,
                                                             no_default=g.no_default)
        if not build_ok:
            inconclusive.append("group %d (%s) did not build; see %s\n%s" % (gi, g.variant, log, tail[-1500:]))
            continue
        for c in cases:
            r = results[c.name]
            verdict, reasons, bad = kanirun.classify(c, r)
            queries += 1
            checks_total += r["checks_total"]
            if r["time"]:
                solver_time += r["time"]
            functions |= r["functions"]
            if verdict == "pass":
                discharged += 1
                if c.symbolic:
                    nontrivial.add(c.name)
            elif verdict == "inconclusive":
                inconclusive.append("%s: %s" % (c.name, "; ".join(reasons)))
            else:
                # split into known findings and new violations
                new_bad = []
                for b in bad:
                    key = "%s/%s" % (c.role, signature(b))
                    hit = [k for k in known if k[0] == key]
                    if hit:
                        known_hit.setdefault(key, hit[0][1])
                    else:
                        new_bad.append(b)
                if new_bad:
                    violations.append((c, g, work, new_bad))
                else:
                    discharged += 1
                    if c.symbolic:
                        nontrivial.add(c.name)
            per_case.append({"harness": c.name, "variant": g.variant, "verdict": verdict, "time_s": r["time"],
                             "checks": r["checks_total"], "case": c.sample, "symbolic_inputs": c.symbolic,
                             "reasons": reasons[:3]})
        if not args.keep and not violations:
            shutil.rmtree(work, ignore_errors=True)
    extra_cov = {}
    if plan.extra:
        extra_thread.join()
        ex = extra_box.get("res", {"inconclusive": ["second engine produced no result"]})
        extra_cov = ex.get("coverage", {})
        queries += ex.get("queries", 0)
        discharged += ex.get("discharged", 0)
        solver_time += ex.get("solver_time_s", 0.0)
        functions |= set(ex.get("functions", []))
        for n in ex.get("nontrivial", []):
            nontrivial.add(n)
        inconclusive += ex.get("inconclusive", [])
        for v in ex.get("violations", []):
            violations.append(v)
        per_case += ex.get("samples", [])
    # confirm violations
    confirmed = []
    seen_groups = {}
    for v in violations:
        if isinstance(v, dict):      # already confirmed by the engine (E2 replays natively itself)
            confirmed.append(v)
            continue
        c, g, work, bad = v
        # one confirmation (solver re-run with concrete playback + native replay) per distinct
        # (role, failed-check signature); further harnesses with the same signature are listed under it
        gkey = "%s/%s" % (c.role.split(":")[0], signature(bad[0]))
        if gkey in seen_groups:
            seen_groups[gkey].setdefault("also", []).append(c.name)
            continue
        import replay
        info = replay.confirm(prop, c, g, work, bad, plan)
        seen_groups[gkey] = info
        if info["status"] == "confirmed":
            confirmed.append(info)
        else:
            inconclusive.append("%s: counterexample not confirmed (%s)" % (c.name, info.get("why", "")))
    wall = time.time() - t0
    for key, what in known_hit.items():
        print("KNOWN-FINDING: property=%s %s [%s]" % (prop, what, key))
    samples = per_case[:6] + [p for p in per_case[6:] if p["verdict"] != "pass"][:10]
    states = set()
    for pc in per_case:
        st = pc.get("case", {})
        key = json.dumps(st.get("state", st), sort_keys=True, default=str)
        states.add(key)
    traces_validated = sum(v.get("sequences", 0) for v in validations)
    coverage = {
        # model-checking view: a state = one canonical pre-state / input shape explored symbolically,
        # a transition = one (pre-state, operation) solver query discharged; traces validated against
        # the implementation = native differential runs used to validate the oracle/translator
        "states": max(len(states), 1),
        "transitions": max(discharged, 1),
        "traces_validated_against_impl": traces_validated,
        "evaluations": queries,
        "distinct_nontrivial": len(nontrivial),
        "rule": plan.rule,
        "samples": samples,
        "obligations": queries,
        "discharged": discharged,
        "queries_discharged": discharged,
        "checks_in_queries": checks_total,
        "solver_time_s": round(solver_time, 1),
        "functions_encoded": sorted(functions),
        "bounds": plan.bounds,
        "outside_claim": plan.outside,
        "technique": plan.technique,
        "translator_validation": validations,
        "known_findings_hit": sorted(known_hit),
        "inconclusive": inconclusive[:20],
        "partial_run_filter": args.only,
        "all_cases": ["%s:%s:%ss" % (p["harness"], p["verdict"], int(p["time_s"]) if p.get("time_s") else "-") for p in per_case],
    }
    coverage.update(extra_cov)
    write_evidence(prop, tier, seed, plan.level, coverage, plan.assumptions, wall, len(confirmed))
    print("[%s/%s] queries=%d discharged=%d violations=%d inconclusive=%d known=%d wall=%.0fs solver=%.0fs" % (
        prop, tier, queries, discharged, len(confirmed), len(inconclusive), len(known_hit), wall, solver_time))
    if confirmed:
        if len(confirmed) > 6:
            print("(%d confirmed violations; the first 6 are listed, all are in the evidence/replay files)" % len(confirmed))
        for info in confirmed[:6]:
            print("VIOLATION property=%s replay=%s" % (prop, info["path"]))
            print("  " + info.get("summary", ""))
            if info.get("also"):
                print("  same failure in %d more harnesses: %s" % (len(info["also"]), ", ".join(info["also"][:8])))
        return 1
    if inconclusive:
        for i in inconclusive[:15]:
            print("INCONCLUSIVE: " + i[:400])
        return 2
    return 0
