"""Counterexample confirmation and replay.

confirm(): re-runs the failing harness alone with Kani's concrete playback to obtain the solver's
concrete assignment, stores it with the harness body in /verif/replays/<prop>-<harness>.json and
replays it *natively* against the real crate (see native_replay).  Only a reproduced failure is
reported as VIOLATION.
"""
import os, re, json, subprocess, time, shutil
import kanirun
from kanirun import VERIF, BUILD

REPLAYS = os.path.join(VERIF, "replays")


def extract_playback(txt, want_descs=()):
    """Parse the unit tests Kani prints with --concrete-playback=print (one per failed check AND per
    satisfied cover) and pick the one that belongs to a failed check (matching description first)."""
    blocks = []
    for part in txt.split("Concrete playback unit test for")[1:]:
        m = re.search(r"(#\[test\]\s*fn kani_concrete_playback_[\s\S]*?\n\})", part)
        if not m:
            continue
        km = re.search(r"/// Check for `([^`]*)`: \"(.*)\"", part)
        kind, desc = (km.group(1), km.group(2)) if km else ("?", "")
        code = m.group(1)
        vals = []
        for vm in re.finditer(r"//\s*(.+)\n\s*vec!\[([0-9,\s]*)\]", code):
            vals.append({"value": vm.group(1).strip(), "bytes": [int(x) for x in vm.group(2).replace(" ", "").split(",") if x]})
        blocks.append({"kind": kind, "desc": desc, "test_code": code, "values": vals})
    if not blocks:
        return None
    def norm(d):
        return d.strip().strip('"')
    wants = [norm(d) for d in want_descs]
    for b in blocks:
        if b["kind"] != "cover" and any(w and (w in norm(b["desc"]) or norm(b["desc"]) in w) for w in wants):
            return b
    for b in blocks:
        if b["kind"] != "cover":
            return b
    # only cover traces exist (e.g. the violation is a sentinel cover that was reached)
    for b in blocks:
        if any(w and w in norm(b["desc"]) for w in wants):
            return b
    return None


def confirm(prop, case, group, work, bad, plan):
    os.makedirs(REPLAYS, exist_ok=True)
    path = os.path.join(REPLAYS, "%s-%s.json" % (prop, case.name))
    env = dict(os.environ)
    env["CARGO_NET_OFFLINE"] = "true"
    env["CARGO_TARGET_DIR"] = os.path.join(BUILD, "target", group.variant)
    if group.rustflags:
        env["RUSTFLAGS"] = group.rustflags
    cmd = ["cargo", "kani", "-Z", "stubbing", "-Z", "unstable-options", "--no-assertion-reach-checks",
           "-Z", "concrete-playback", "--concrete-playback=print", "--harness", "cases::" + case.name, "--exact",
           "--harness-timeout", "%ds" % (plan.harness_timeout * 2)]
    if group.no_default:
        cmd.append("--no-default-features")
    if group.features:
        cmd += ["--features", ",".join(group.features)]
    t0 = time.time()
    p = subprocess.run(cmd, cwd=work, env=env, capture_output=True, text=True, preexec_fn=kanirun._limit)
    out = p.stdout + p.stderr
    pb = extract_playback(out, [b["desc"].replace("sentinel reached: ", "") for b in bad])
    rec = {
        "property": prop, "harness": case.name, "body": case.body, "unwind": case.unwind, "macro": case.harness_macro,
        "crate": group.crate, "variant": group.variant, "rustflags": group.rustflags, "features": group.features,
        "no_default": group.no_default,
        "case": case.sample, "failed_checks": [{"desc": b["desc"], "loc": b["loc"]} for b in bad],
        "sentinel": any(b.get("name") == "cover" for b in bad),
        "solver_assignment": pb["values"] if pb else None,
        "playback_test": pb["test_code"] if pb else None,
        "how_to_replay": "./check %s --replay %s" % (prop, path),
    }
    status = "confirmed"
    why = ""
    if pb is None and not any(b.get("name") == "cover" for b in bad):
        # the failure did not recur when run alone, or no trace could be produced
        if "VERIFICATION:- SUCCESSFUL" in out:
            status, why = "unconfirmed", "failure did not recur when the harness was re-run alone"
        else:
            why = "no concrete trace extracted; solver verdict stands (re-run reproduced the failed check)"
    try:
        import native
        nat = native.replay(rec, work)
    except Exception as e:
        nat = {"status": "not-run", "why": repr(e)[:200]}
    rec["native_replay"] = nat
    # Policy: a violation is reported when the counterexample replays natively (dev/release/Miri).
    # If the native replay is unavailable (seam / feature configurations) the solver verdict of the
    # re-run stands and is labelled as such.  If it is available but does not reproduce: failed CBMC
    # memory-safety checks are standard-level UB no native tool need confirm -> reported, labelled
    # "UB class, solver-only"; a failed functional assertion that does not reproduce means the encoding
    # or a shim is wrong -> inconclusive, not a violation.
    if status == "confirmed":
        ns = nat.get("status")
        ub_class = any(re.search(r"dereference failure|pointer|memcpy|free|deallocat|out of bounds|dead object|invalid", b["desc"]) and not b["desc"].startswith("[") for b in bad)
        if ns == "reproduced":
            why = "reproduced natively in: " + ", ".join(nat.get("reproduced_in", []))
        elif ns in ("not-available", "not-run"):
            why = "native replay not available for this configuration; solver re-run reproduced the failed check"
        elif ub_class:
            why = "UB class (CBMC memory-safety check); not observable natively (%s); solver-only" % ns
        else:
            status, why = "unconfirmed", "functional counterexample does not replay natively (%s): encoding or shim suspected" % ns
    rec["confirmation"] = {"status": status, "why": why, "wall_s": round(time.time() - t0, 1)}
    with open(path, "w") as f:
        json.dump(rec, f, indent=1)
    summary = "%s: %s" % (case.name, "; ".join("%s @ %s" % (b["desc"], b["loc"]) for b in bad[:2]))
    return {"status": status, "why": why, "path": path, "summary": (summary + "  [" + why + "]")[:700]}


def replay_file(path):
    """Re-run the recorded harness (same generated body) against /repo's current tree under the solver."""
    rec = json.load(open(path))
    if rec.get("engine") == "mir2smt":
        import mir2smt_run
        return mir2smt_run.replay(rec)
    case = kanirun.Case(rec["harness"], rec["body"], rec["unwind"], rec.get("case", {}), ["replay"],
                        harness_macro=rec.get("macro", "harness"))
    work = kanirun.prepare_crate(rec.get("crate", "std"), "replay-" + rec["harness"], [case])
    log = os.path.join(BUILD, "logs", "replay-" + rec["harness"] + ".log")
    os.makedirs(os.path.dirname(log), exist_ok=True)
    results, wall, build_ok, tail, rc = kanirun.run_kani(work, rec.get("variant", "std"), [case], log, 1200,
                                                         extra_rustflags=rec.get("rustflags", ""),
                                                         features=rec.get("features"), no_default=rec.get("no_default", False))
    r = results[case.name]
    failed = [f for f in r["failed"]]
    want = set(f["desc"] for f in rec.get("failed_checks", []))
    got = set(f["desc"] for f in failed)
    shutil.rmtree(work, ignore_errors=True)
    if want & got or (failed and not want):
        print("REPLAY: reproduced on the current tree: " + "; ".join(sorted(want & got or got))[:300])
        print("VIOLATION property=%s replay=%s" % (rec["property"], path))
        return 1
    if r["status"] == "pass":
        print("REPLAY: the recorded counterexample no longer fails on the current tree")
        return 0
    print("REPLAY: inconclusive (%s)" % r["status"])
    return 2
