"""Canonical pre-state shapes and operation tables shared by the property modules."""
from kanirun import Case

FAM = {"A": "FAM_A", "T": "FAM_T", "M": "FAM_M", "M2": "FAM_M2", "M3": "FAM_M3", "C": "FAM_C"}
FAM_DESC = {
    "A": "n symbolic ASCII bytes",
    "T": "concrete template 'aé€𝄞bé€𝄞…' prefix (widths 1,2,3,4), ASCII padded",
    "M": "layout 1,2,3,4,… every byte symbolic inside its UTF-8 class",
    "M2": "layout 4,3,2,1,… every byte symbolic inside its UTF-8 class",
    "M3": "layout 3,3,2,… every byte symbolic inside its UTF-8 class",
    "C": "concrete ASCII 'abc…'",
}
KIND = {"inline": "K_INLINE", "static": "K_STATIC", "heap": "K_HEAP", "tiny": "K_TINY"}
SYM = "SYM"


class Shape:
    """kind, family, constructed length n0, requested capacity (0 = exact), sharers, handle lengths."""

    def __init__(self, kind, fam, n0, cap=0, ns=0, len_=None, la=None, lb=None, tgt_clone=False):
        self.kind, self.fam, self.n0, self.cap, self.ns = kind, fam, n0, cap, ns
        self.len = n0 if len_ is None else len_
        self.la = n0 if la is None else la
        self.lb = n0 if lb is None else lb
        self.tgt_clone = tgt_clone

    def tag(self):
        def l(x):
            return "S" if x == SYM else str(x)
        t = "%s%s%d" % ({"inline": "i", "static": "s", "heap": "h", "tiny": "y"}[self.kind], self.fam, self.n0)
        if self.cap:
            t += "c%d" % self.cap
        t += "_l" + l(self.len)
        if self.ns >= 1:
            t += "_a" + l(self.la)
        if self.ns >= 2:
            t += "_b" + l(self.lb)
        if self.tgt_clone:
            t += "_tc"
        return t

    def role(self):
        return "%s%s" % (self.kind, "-shared" if self.ns else "")

    def args(self):
        def l(x):
            return "SYM" if x == SYM else str(x)
        return "%s, %s, %d, %d, %d, %s, %s, %s, %s" % (
            KIND[self.kind], FAM[self.fam], self.n0, self.cap, self.ns, l(self.len), l(self.la), l(self.lb),
            "true" if self.tgt_clone else "false")

    def describe(self):
        d = {"storage": self.kind, "text": "%s(%d): %s" % (self.fam, self.n0, FAM_DESC[self.fam]),
             "capacity_requested": self.cap or "exact", "sharers": self.ns, "target_len": self.len}
        if self.ns >= 1:
            d["sharer_a_len"] = self.la
        if self.ns >= 2:
            d["sharer_b_len"] = self.lb
        if self.tgt_clone:
            d["target_is_the_clone"] = True
        return d

    def symbolic(self):
        s = []
        if self.fam in ("A", "M", "M2", "M3") and self.n0 > 0:
            s.append("text bytes")
        if SYM in (self.len, self.la, self.lb):
            s.append("handle length")
        if self.kind == "heap" and self.cap:
            s.append("garbage bytes behind the text (fresh malloc)")
        return s

    def unwind(self, extra=0):
        return self.n0 + 11 + extra


# op name -> (const, symbolic args, list of (k, multi) variants)
OPS = {
    "push": ("PUSH", ["char (any scalar value)"], [(0, False)]),
    "push_str": ("PUSH_STR", ["k ASCII bytes"], [(3, False), (6, True)]),
    "pop": ("POP", [], [(0, False)]),
    "remove": ("REMOVE", ["byte index (all valid)"], [(0, False)]),
    "insert": ("INSERT", ["byte index (all valid)"], [(1, False), (2, False), (3, False), (4, False)]),
    "insert_sym": ("INSERT", ["byte index (all valid)", "char (any scalar value)"], [(0, False)]),
    "insert_str": ("INSERT_STR", ["byte index (all valid)", "k ASCII bytes"], [(3, False), (5, True)]),
    "truncate": ("TRUNCATE", ["new_len (all non-panicking usize)"], [(0, False)]),
    "clear": ("CLEAR", [], [(0, False)]),
    "retain": ("RETAIN", ["keep mask (one bit per char)"], [(0, False)]),
    "reserve": ("RESERVE", ["additional (0..=2^20)"], [(0, False)]),
    "shrink_to": ("SHRINK_TO", ["min_capacity (all usize)"], [(0, False)]),
    "shrink_to_fit": ("SHRINK_FIT", [], [(0, False)]),
    "extend_char": ("EXTEND_CHAR", ["char (any scalar value)"], [(0, False)]),
    "extend_str": ("EXTEND_STR", ["k ASCII bytes"], [(3, False)]),
    "add_assign": ("ADD_ASSIGN", ["k ASCII bytes"], [(3, False)]),
    "add": ("ADD", ["k ASCII bytes"], [(3, False)]),
    "write_str": ("WRITE", ["k ASCII bytes"], [(3, False)]),
    "clone_drop": ("CLONE_DROP", [], [(0, False)]),
    "clone_from": ("CLONE_FROM_NEW", [], [(0, False)]),
    "assign": ("ASSIGN_NEW", [], [(0, False)]),
}


def step_case(prefix, op, shape, k=0, multi=False, tf=True, fn="step", extra_unwind=0, timeout=None, fail_at=None):
    const, symargs, _ = OPS[op]
    name = "%s_%s%s_%s%s" % (prefix, op, ("_k%d%s" % (k, "m" if multi else "")) if k else "", shape.tag(),
                             "" if tf else "_sf")
    fa = "" if fail_at is None else "%d, " % fail_at
    if fail_at is not None:
        name += "_f%s" % ("S" if fail_at == 0 else str(fail_at))
    body = "%s(%s, %s, %d, %s, %s%s)" % (fn, shape.args(), const, k, "true" if multi else "false", fa, "true" if tf else "false")
    sample = {"op": op, "state": shape.describe(), "drop_order": "target first" if tf else "sharers first"}
    if k:
        sample["k"] = k
        sample["multi_byte_piece"] = multi
    sym = shape.symbolic() + symargs
    if fail_at is not None:
        sample["allocator"] = "solver decides per request" if fail_at == 0 else "request #%d of the operation is refused" % fail_at
    return Case(name, body, shape.unwind(extra_unwind + k), sample, sym, role="%s:%s" % (op, shape.role()),
                timeout=timeout)
