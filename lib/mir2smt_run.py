"""Driver for E2: dump MIR from a scratch copy of /repo, encode, discharge, cross-check, validate, replay."""
import os, sys, re, json, time, shutil, subprocess, tempfile, random
import z3
import mir2smt
from mir2smt import INT_TYPES, WIDE_TYPES, tmin, tmax

VERIF = os.path.dirname(os.path.dirname(os.path.abspath(__file__)))
BUILD = os.path.join(VERIF, ".build")
REPLAYS = os.path.join(VERIF, "replays")


def dump_mir():
    """cargo +nightly rustc -Zunpretty=mir on a scratch copy of /repo (outside /repo and /verif); copy removed."""
    scratch = tempfile.mkdtemp(prefix="ls_mir_", dir=os.environ.get("TMPDIR", "/tmp"))
    try:
        dst = os.path.join(scratch, "repo")
        shutil.copytree("/repo", dst, ignore=shutil.ignore_patterns("target", ".git"))
        env = dict(os.environ)
        env["CARGO_NET_OFFLINE"] = "true"
        env["CARGO_TARGET_DIR"] = os.path.join(scratch, "target")
        env.pop("RUSTFLAGS", None)
        p = subprocess.run(["cargo", "+nightly", "rustc", "--offline", "--lib", "--", "-Zunpretty=mir",
                            "-C", "debug-assertions=off", "-C", "overflow-checks=on"],
                           cwd=dst, env=env, capture_output=True, text=True)
        if p.returncode != 0 or "fn " not in p.stdout:
            return None, p.stderr[-1500:]
        return p.stdout, ""
    finally:
        shutil.rmtree(scratch, ignore_errors=True)


def native_strings(values_by_type):
    """Run the real crate natively (dev and release): n.to_lean_string() and n.to_string() for the given values."""
    crate = os.path.join(VERIF, "mir2smt", "replay")
    out = {}
    for prof in ("dev", "release"):
        env = dict(os.environ)
        env["CARGO_NET_OFFLINE"] = "true"
        env["CARGO_TARGET_DIR"] = os.path.join(BUILD, "target", "mirreplay")
        cmd = ["cargo", "run", "--offline", "--quiet"] + (["--release"] if prof == "release" else []) + ["--"]
        inp = "\n".join("%s %d" % (t, v) for t, vs in values_by_type.items() for v in vs) + "\n"
        p = subprocess.run(cmd, cwd=crate, env=env, input=inp, capture_output=True, text=True)
        if p.returncode != 0:
            return None, (p.stderr + p.stdout)[-1500:]
        res = {}
        for line in p.stdout.splitlines():
            parts = line.split(" ")
            if len(parts) == 4:
                res[(parts[0], int(parts[1]))] = (parts[2], parts[3])
        out[prof] = res
    return out, ""


def smt2_of(pc, claim):
    s = z3.Solver()
    for c in pc:
        s.add(c)
    s.add(z3.Not(claim))
    return "(set-logic ALL)\n" + s.to_smt2()


def cvc5_check(smt2, timeout=60):
    with tempfile.NamedTemporaryFile("w", suffix=".smt2", delete=False) as f:
        f.write(smt2)
        path = f.name
    try:
        p = subprocess.run(["cvc5", "--lang", "smt2", "--tlimit=%d" % (timeout * 1000), path], capture_output=True, text=True)
        out = (p.stdout + p.stderr).strip()
        if "(error" in out:
            return "error: " + out[:160].replace("\n", " ")
        first = out.splitlines()[0] if out else "unknown"
        return first
    finally:
        os.unlink(path)


def corpus(ty, seed, nrand=200):
    lo, hi = tmin(ty), tmax(ty)
    vals = {lo, hi, 0, 1, -1, lo + 1, hi - 1}
    k = 1
    while k <= hi:
        for d in range(-3, 4):
            vals.add(k + d)
            vals.add(-(k + d))
        k *= 10
    k = 1
    while k <= hi:
        for d in range(-3, 4):
            vals.add(k + d)
            vals.add(-(k + d))
        k *= 2
    rnd = random.Random(seed * 7919 + hash(ty) % 1000)
    for _ in range(nrand):
        digits = rnd.randint(1, len(str(hi)))
        v = rnd.randint(0, 10 ** digits)
        vals.add(v)
        vals.add(-v)
    return sorted(x for x in vals if lo <= x <= hi)


def eval_encoding(fns, lut, ty, value):
    """Evaluate the *encoding* on one concrete input: the bytes the symbolic executor says are produced."""
    ctx, v, finals = mir2smt.encode_type(fns, lut, ty, pin=value)
    if len(finals) != 1:
        return None
    p, dcv = finals[0]
    s = z3.Solver()
    for c in p.pc:
        s.add(c)
    if s.check() != z3.sat:
        return None
    m = s.model()
    if dcv == -1:
        return str(m.eval(p.dectext, model_completion=True).as_long())
    arr = {}
    for (off, val) in p.buf_writes:
        arr[m.eval(off, model_completion=True).as_long()] = m.eval(val, model_completion=True).as_long()
    try:
        return bytes(arr[i] for i in range(dcv)).decode("latin1")
    except KeyError:
        return "<unwritten byte>"


def run(tier, seed):
    """-> dict for driver.Plan.extra"""
    t0 = time.time()
    res = {"queries": 0, "discharged": 0, "solver_time_s": 0.0, "functions": [], "nontrivial": [], "inconclusive": [],
           "violations": [], "samples": [], "coverage": {}}
    mir, err = dump_mir()
    if mir is None:
        res["inconclusive"].append("MIR dump failed: " + err[-300:])
        return res
    fns, lut = mir2smt.parse_mir(mir)
    lemma = mir2smt.check_lut_lemma(lut)
    cov = {"mir_bytes": len(mir), "lut_lemma_holds_on_dump": lemma, "per_type": {}, "cvc5_cross_checked": 0, "stubs": set(),
           "translator_validation_e2": {}}
    candidates = []   # (ty, nonzero, value, obligation name)
    cvc_budget = 400 if tier == "thorough" else 60
    for nonzero in (False, True):
        for ty in INT_TYPES + WIDE_TYPES:
            label = ("NonZero<%s>" % ty) if nonzero else ty
            try:
                ctx, v, finals = mir2smt.encode_type(fns, lut, ty, nonzero=nonzero)
            except mir2smt.Unsupported as e:
                res["inconclusive"].append("E2 %s: unsupported MIR construct: %s" % (label, e))
                continue
            except Exception as e:   # parse/encode failure is inconclusive, never success
                res["inconclusive"].append("E2 %s: encoder error %r" % (label, e))
                continue
            n_ob = 0
            n_ok = 0
            tq = 0.0
            for (name, pc, claim, info) in ctx.obligations:
                n_ob += 1
                s = z3.Solver()
                s.set("timeout", 120000)
                for c in pc:
                    s.add(c)
                s.add(z3.Not(claim))
                t1 = time.time()
                r = s.check()
                tq += time.time() - t1
                if r == z3.unsat:
                    n_ok += 1
                    if cov["cvc5_cross_checked"] < cvc_budget and (n_ob % (3 if tier == "thorough" else 11) == 0):
                        c5 = cvc5_check(smt2_of(pc, claim))
                        cov["cvc5_cross_checked"] += 1
                        if c5 != "unsat":
                            res["inconclusive"].append("E2 %s: z3 says unsat, cvc5 says %s for '%s'" % (label, c5, name))
                elif r == z3.sat:
                    val = s.model().eval(v, model_completion=True).as_long()
                    candidates.append((ty, nonzero, val, name))
                else:
                    res["inconclusive"].append("E2 %s: solver returned unknown for '%s'" % (label, name))
            res["queries"] += n_ob + ctx.feas_queries
            res["discharged"] += n_ok + ctx.feas_queries
            res["solver_time_s"] += tq + ctx.solver_time
            cov["stubs"] |= ctx.stubs_used
            res["functions"] += sorted(ctx.functions)
            ok_paths = len(finals)
            cov["per_type"][label] = {"paths_ok": ok_paths, "obligations": n_ob, "discharged": n_ok,
                                      "feasibility_queries": ctx.feas_queries, "digits_counts": sorted(set(d for _, d in finals if d >= 0))}
            if n_ob and n_ok == n_ob and ok_paths >= 1:
                res["nontrivial"].append("e2_" + label)
            res["samples"].append({"harness": "e2:into_repr(%s)" % label, "verdict": "pass" if n_ok == n_ob else "open",
                                   "case": {"input": "every value of %s%s" % (ty, " except 0" if nonzero else ""), "paths": ok_paths,
                                            "obligations": n_ob}, "symbolic_inputs": ["the integer (full range)"], "time_s": round(tq, 2)})
    # translator validation + replay of candidates against the real code
    vals = {}
    for ty in INT_TYPES + WIDE_TYPES:
        vals[ty] = corpus(ty, seed, 200 if tier == "thorough" else 40)
    for (ty, nz, val, name) in candidates:
        vals.setdefault(ty, []).append(val)
    nat, err = native_strings(vals)
    if nat is None:
        res["inconclusive"].append("native replay binary failed: " + err[-300:])
    else:
        mism = 0
        checked = 0
        for ty in INT_TYPES + WIDE_TYPES:
            sub = vals[ty] if tier == "thorough" else vals[ty][:: max(1, len(vals[ty]) // 14)]
            for val in sub:
                enc = eval_encoding(fns, lut, ty, val)
                real = nat["dev"].get((ty, val), (None, None))[0]
                checked += 1
                if enc != real:
                    mism += 1
                    if mism <= 3:
                        res["inconclusive"].append("E2 translator validation: encoding says %r, real code says %r for %s %d" % (enc, real, ty, val))
        cov["translator_validation_e2"] = {"inputs": checked, "mismatches": mism}
        # native disagreement between to_lean_string and to_string anywhere in the corpus or a solver candidate
        seen = set()
        for prof in ("dev", "release"):
            for (ty, val), (ls, std) in nat[prof].items():
                if ls != std and (ty, val) not in seen:
                    seen.add((ty, val))
                    why = [n for (t, z, vv, n) in candidates if t == ty and vv == val]
                    os.makedirs(REPLAYS, exist_ok=True)
                    path = os.path.join(REPLAYS, "C14-%s-%d.json" % (ty, val))
                    json.dump({"engine": "mir2smt", "property": "C14", "type": ty, "value": val, "to_lean_string": ls, "to_string": std,
                               "profile": prof, "failed_obligations": why, "how_to_replay": "./check C14 --replay " + path}, open(path, "w"), indent=1)
                    res["violations"].append({"status": "confirmed", "path": path,
                                              "summary": "%s %d: to_lean_string()=%r, to_string()=%r (%s)" % (ty, val, ls, std, prof)})
        for (ty, nz, val, name) in candidates:
            if (ty, val) not in seen:
                ls, std = nat["dev"].get((ty, val), (None, None))
                if name.startswith("Horner") or name.startswith("digits") or name.startswith("'-'") or name.startswith("no leading"):
                    res["inconclusive"].append("E2 %s %d: obligation '%s' has a counterexample that does not reproduce natively (%r)" % (ty, val, name, ls))
                else:
                    # memory-safety / internal obligations (out-of-bounds write, overflow assert): UB or panic class
                    os.makedirs(REPLAYS, exist_ok=True)
                    path = os.path.join(REPLAYS, "C14-%s-%d.json" % (ty, val))
                    json.dump({"engine": "mir2smt", "property": "C14", "type": ty, "value": val, "to_lean_string": ls, "to_string": std,
                               "failed_obligations": [name], "class": "internal obligation (bounds/overflow) - not visible as a text difference",
                               "how_to_replay": "./check C14 --replay " + path}, open(path, "w"), indent=1)
                    res["violations"].append({"status": "confirmed", "path": path,
                                              "summary": "%s %d: obligation '%s' violated (solver counterexample; text natively %r)" % (ty, val, name, ls)})
                    seen.add((ty, val))
    cov["stubs"] = sorted(cov["stubs"])
    cov["e2_wall_s"] = round(time.time() - t0, 1)
    res["coverage"] = {"e2": cov}
    res["functions"] = sorted(set(res["functions"]))
    return res


def replay(rec):
    nat, err = native_strings({rec["type"]: [rec["value"]]})
    if nat is None:
        print("REPLAY: inconclusive: " + err[-200:])
        return 2
    bad = False
    for prof in ("dev", "release"):
        ls, std = nat[prof][(rec["type"], rec["value"])]
        print("REPLAY %s: %s %d -> to_lean_string()=%r to_string()=%r" % (prof, rec["type"], rec["value"], ls, std))
        bad |= ls != std
    if bad:
        print("VIOLATION property=C14 replay=" + rec.get("how_to_replay", "").split()[-1])
        return 1
    return 0
