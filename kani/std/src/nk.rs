//! Native stand-in for the `kani` API, used only to *replay* solver counterexamples against the real
//! crate without Kani (plain `cargo test`, release build, and `cargo +nightly miri test`).
//! `any()` returns the recorded concrete values in the order the solver's trace produced them.
#![allow(static_mut_refs)]

pub static mut QUEUE: [[u8; 16]; 512] = [[0; 16]; 512];
pub static mut QLEN: [usize; 512] = [0; 512];
pub static mut QN: usize = 0;
pub static mut QPOS: usize = 0;
/// number of `any()` calls that found the queue exhausted (the solver left them unconstrained)
pub static mut EXHAUSTED: usize = 0;

pub fn load(vals: &[&[u8]]) {
    unsafe {
        QN = 0;
        QPOS = 0;
        EXHAUSTED = 0;
        for v in vals {
            let mut i = 0;
            while i < v.len() && i < 16 {
                QUEUE[QN][i] = v[i];
                i += 1;
            }
            QLEN[QN] = v.len();
            QN += 1;
        }
    }
}

pub trait Nk: Sized {
    fn from_le(b: &[u8; 16]) -> Self;
}
macro_rules! nk_int {
    ($($t:ty),*) => { $( impl Nk for $t {
        fn from_le(b: &[u8; 16]) -> Self {
            let mut a = [0u8; core::mem::size_of::<$t>()];
            let mut i = 0;
            while i < a.len() { a[i] = b[i]; i += 1; }
            <$t>::from_le_bytes(a)
        }
    } )* };
}
nk_int!(u8, u16, u32, u64, u128, usize, i8, i16, i32, i64, i128, isize);
impl Nk for bool {
    fn from_le(b: &[u8; 16]) -> Self {
        b[0] & 1 == 1
    }
}
impl Nk for char {
    fn from_le(b: &[u8; 16]) -> Self {
        let v = u32::from_le_bytes([b[0], b[1], b[2], b[3]]);
        match char::from_u32(v) {
            Some(c) => c,
            None => assume_failed(),
        }
    }
}

pub fn any<T: Nk>() -> T {
    unsafe {
        if QPOS < QN {
            let r = T::from_le(&QUEUE[QPOS]);
            QPOS += 1;
            r
        } else {
            EXHAUSTED += 1;
            T::from_le(&[0; 16])
        }
    }
}

pub struct AssumeFailed;
fn assume_failed() -> ! {
    std::panic::panic_any(AssumeFailed)
}
/// A violated assumption means the recorded trace does not apply (reported as "not applicable").
pub fn assume(c: bool) {
    if !c {
        assume_failed()
    }
}

macro_rules! cover {
    ($($t:tt)*) => {};
}
pub(crate) use cover;
