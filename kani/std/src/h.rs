//! Harness bodies.  The case generator (`/verif/check`) emits one `harness!` per case into
//! `cases.rs`; every shape parameter below is a literal there, every argument of the operation
//! under test is chosen by the solver.

#[cfg(not(kani))]
use crate::nk as kani;
use crate::model::{self, ModelStr, MCAP};
use crate::ops::{self, *};
use crate::shim;
use crate::st::{self, *};
use crate::text::{self, *};
use lean_string::{LeanString, ReserveError};

/// C01/C02/C03/C10: one operation from a canonical state; result and post-state equal the model,
/// INV holds on every handle, non-targets are untouched, the epilogue frees everything once.
pub fn step(kind: u8, fam: u8, n0: usize, cap: usize, ns: u8, len: usize, la: usize, lb: usize, tgt_clone: bool, op: u8, k: usize, multi: bool, tf: bool) {
    let mut s = build(kind, fam, n0, cap, ns, len, la, lb, tgt_clone);
    check_all(&s);
    let sa = see(&s.a);
    let sb = see(&s.b);
    ops::apply(op, k, multi, &mut s.t, &mut s.m);
    check_handle(&s.t, &s.m);
    check_unchanged(&s.a, &s.ma, &sa);
    check_unchanged(&s.b, &s.mb, &sb);
    check_live_blocks(&s);
    check_static_pristine();
    epilogue(s, tf);
}


// ---------------------------------------------------------------------------------------------
// C13: shrink_to / shrink_to_fit, all min_capacity values
// ---------------------------------------------------------------------------------------------
pub fn shrink(kind: u8, fam: u8, n0: usize, cap: usize, ns: u8, len: usize, la: usize, lb: usize, tgt_clone: bool, fit: bool, tf: bool) {
    let mut s = build(kind, fam, n0, cap, ns, len, la, lb, tgt_clone);
    let sa = see(&s.a);
    let sb = see(&s.b);
    let cap0 = s.t.capacity();
    let len0 = s.t.len();
    let heap0 = s.t.is_heap_allocated();
    let m: usize = if fit { 0 } else { kani::any() };
    if fit {
        s.t.shrink_to_fit();
    } else {
        s.t.shrink_to(m);
    }
    let cap1 = s.t.capacity();
    // text of every string unchanged
    check_handle(&s.t, &s.m);
    check_unchanged(&s.a, &s.ma, &sa);
    check_unchanged(&s.b, &s.mb, &sb);
    let floor16 = if cap0 > 16 { cap0 } else { 16 };
    assert!(cap1 <= floor16, "[C13] capacity grew by shrinking (beyond the inline size)");
    assert!(cap1 >= len0, "[C13] capacity below len after shrinking");
    let want = if m < cap0 { m } else { cap0 };
    assert!(cap1 >= want, "[C13] capacity below min(min_capacity, old capacity)");
    let target = if len0 > m { len0 } else { m };
    if heap0 && cap0 > target {
        if target <= 16 {
            assert!(!s.t.is_heap_allocated() && cap1 == 16, "[C13] heap string that fits inline was not moved inline");
        } else {
            assert!(cap1 == target, "[C13] heap capacity did not land on max(len, min_capacity)");
        }
        kani::cover!(ns > 0, "shrunk while shared");
    }
    if !heap0 {
        assert!(cap1 == cap0 && !s.t.is_heap_allocated(), "[C13] non-heap string changed storage by shrinking");
    }
    check_live_blocks(&s);
    epilogue(s, tf);
}

// ---------------------------------------------------------------------------------------------
// C12: growth events
// ---------------------------------------------------------------------------------------------
/// `gop`: 0 push(sym char), 1 push_str(k), 2 insert_str(idx sym, k), 3 reserve(n any <= 2^39), 4 insert(rep char k)
pub fn grow(kind: u8, fam: u8, n0: usize, cap: usize, ns: u8, len: usize, la: usize, lb: usize, tgt_clone: bool, gop: u8, k: usize, tf: bool) {
    let mut s = build(kind, fam, n0, cap, ns, len, la, lb, tgt_clone);
    let len0 = s.t.len();
    let cap0 = s.t.capacity();
    let before = shim::snap();
    let add: usize;
    match gop {
        0 => {
            let c = any_char();
            add = c.w;
            s.t.push(c.c);
            s.m.push_bytes(&c.bytes[..c.w]);
        }
        1 => {
            let a = any_str(k, false);
            add = k;
            s.t.push_str(a.as_str());
            s.m.push_bytes(a.bytes());
        }
        2 => {
            let a = any_str(k, false);
            let idx: usize = kani::any();
            kani::assume(!s.m.insert_panics(idx));
            add = k;
            s.t.insert_str(idx, a.as_str());
            s.m.insert_bytes(idx, a.bytes());
        }
        3 => {
            let n: usize = kani::any();
            kani::assume(n <= (1usize << 39));
            add = n;
            s.t.reserve(n);
        }
        _ => {
            let c = rep_char(k);
            let idx: usize = kani::any();
            kani::assume(!s.m.insert_panics(idx));
            add = c.w;
            s.t.insert(idx, c.c);
            s.m.insert_bytes(idx, &c.bytes[..c.w]);
        }
    }
    let after = shim::snap();
    let cap1 = s.t.capacity();
    check_handle(&s.t, &s.m);
    if after.reqs > before.reqs {
        // the operation outgrew (or had to leave) its storage: a growth event
        let amort = len0 + len0 / 2;
        let need = len0 + add;
        let hi = if amort > need { amort } else { need };
        assert!(after.reqs == before.reqs + 1, "[C12] more than one allocator request for one growth event");
        assert!(cap1 >= amort, "[C12] new capacity below old_len + old_len/2");
        assert!(cap1 <= hi, "[C12] new capacity above max(1.5 x old_len, old_len + additional)");
        assert!(cap1 >= need, "[C12] new capacity below the size actually required");
        kani::cover!(cap1 == amort && amort > need, "grew by the 1.5x rule");
        kani::cover!(true, "growth event");
    } else {
        // no request: either nothing changed, or borrowed static text moved into the inline bytes
        let inline_now = !s.t.is_heap_allocated() && s.t.as_str().as_ptr() == (&s.t as *const LeanString as *const u8);
        assert!(cap1 == cap0 || (inline_now && cap1 == 16), "[C12] capacity changed without an allocator request");
        assert!(len0 + add <= cap1, "[C12] no request although the result does not fit the capacity");
    }
    epilogue(s, tf);
}

// ---------------------------------------------------------------------------------------------
// C11: capacity is a promise
// ---------------------------------------------------------------------------------------------
/// Within the capacity reported before the call, append/insert on an exclusively owned string
/// issues no request and does not move the text.  `cop`: 0 push(sym), 1 push_str(k), 2 insert_str(k), 3 insert(rep k)
pub fn within_cap(kind: u8, fam: u8, n0: usize, cap: usize, len: usize, cop: u8, k: usize) {
    let mut s = build(kind, fam, n0, cap, 0, len, 0, 0, false);
    let cap0 = s.t.capacity();
    let len0 = s.t.len();
    let p0 = s.t.as_str().as_ptr();
    assert!(cap0 >= len0, "[C11] capacity() < len()");
    let is_static = !s.t.is_heap_allocated() && p0 != (&s.t as *const LeanString as *const u8);
    match cop {
        0 => {
            let c = any_char();
            kani::assume(len0 + c.w <= cap0);
            shim::forbid(!is_static);
            s.t.push(c.c);
            shim::forbid(false);
            s.m.push_bytes(&c.bytes[..c.w]);
        }
        1 => {
            let a = any_str(k, false);
            kani::assume(len0 + k <= cap0);
            shim::forbid(!is_static);
            s.t.push_str(a.as_str());
            shim::forbid(false);
            s.m.push_bytes(a.bytes());
        }
        2 => {
            let a = any_str(k, false);
            let idx: usize = kani::any();
            kani::assume(!s.m.insert_panics(idx));
            kani::assume(len0 + k <= cap0);
            shim::forbid(!is_static);
            s.t.insert_str(idx, a.as_str());
            shim::forbid(false);
            s.m.insert_bytes(idx, a.bytes());
        }
        _ => {
            let c = rep_char(k);
            let idx: usize = kani::any();
            kani::assume(!s.m.insert_panics(idx));
            kani::assume(len0 + c.w <= cap0);
            shim::forbid(!is_static);
            s.t.insert(idx, c.c);
            shim::forbid(false);
            s.m.insert_bytes(idx, &c.bytes[..c.w]);
        }
    }
    if !is_static {
        // (a static string never "owns" its storage; its first write may allocate)
        assert!(s.t.as_str().as_ptr() == p0, "[C11] text moved although the result fits the reported capacity");
        assert!(s.t.capacity() == cap0, "[C11] capacity changed although the result fits");
    }
    check_handle(&s.t, &s.m);
    epilogue(s, true);
}

/// reserve(n): Ok => capacity >= len+n and exclusive ownership.
/// `small == false`: n ranges over all usize, only len/capacity/sharers are observed afterwards
/// (a symbolic capacity up to 2^40 together with content reads does not scale).
/// `small == true`: n in 3..=40 and a following append of 3 bytes must issue no request, must not
/// move the text and must leave every sharer alone (exclusive ownership + real room).
pub fn reserve_promise(kind: u8, fam: u8, n0: usize, cap: usize, ns: u8, len: usize, la: usize, lb: usize, tgt_clone: bool, small: bool, tf: bool) {
    let mut s = build(kind, fam, n0, cap, ns, len, la, lb, tgt_clone);
    let sa = see(&s.a);
    let sb = see(&s.b);
    let n: usize = kani::any();
    if small {
        kani::assume(n >= 3 && n <= 40);
    }
    let len0 = s.t.len();
    let r = s.t.try_reserve(n);
    if r.is_ok() {
        assert!(len0.checked_add(n).is_some(), "[C11] reserve(n) Ok although len+n overflows");
        assert!(s.t.capacity() >= len0 + n, "[C11] capacity() < len()+n after a successful reserve(n)");
        assert!(s.t.len() == len0, "[C11] reserve changed len()");
        if small {
            check_handle(&s.t, &s.m);
            let p0 = s.t.as_str().as_ptr();
            let a = any_str(3, false);
            shim::forbid(true);
            s.t.push_str(a.as_str());
            shim::forbid(false);
            s.m.push_bytes(a.bytes());
            assert!(s.t.as_str().as_ptr() == p0, "[C11] text moved on an append within reserved room");
            check_handle(&s.t, &s.m);
        }
        kani::cover!(n > 100, "large reserve granted");
    } else {
        assert!(!small, "[C11] a small reserve failed with a healthy allocator");
    }
    check_unchanged(&s.a, &s.ma, &sa);
    check_unchanged(&s.b, &s.mb, &sb);
    if small {
        epilogue(s, tf);
    } else {
        // drop without reading content through a symbolic-capacity block
        let St { t, a, b, .. } = s;
        if tf {
            drop(t);
            drop(a);
            drop(b);
        } else {
            drop(b);
            drop(a);
            drop(t);
        }
        assert!(shim::live() == 0, "[MEM] a block is still allocated after every handle was dropped (leak)");
        kani::cover!(true, "end of harness reached");
    }
}

/// with_capacity(n) for all n.
pub fn with_capacity_promise() {
    let n: usize = kani::any();
    let before = shim::snap();
    let r = LeanString::try_with_capacity(n);
    match r {
        Ok(mut t) => {
            assert!(t.capacity() >= n, "[C11] with_capacity(n).capacity() < n");
            assert!(t.len() == 0 && t.is_empty(), "[C11] with_capacity(n) is not empty");
            if n <= 16 {
                assert!(!t.is_heap_allocated() && shim::snap().reqs == before.reqs, "[C09] with_capacity(n<=16) touched the heap");
            } else {
                assert!(t.is_heap_allocated() && t.capacity() == n, "[C11] with_capacity(n>16) capacity != n");
                assert!(shim::snap().reqs == before.reqs + 1, "[C09] with_capacity(n>16) did not allocate exactly once");
            }
            let m = ModelStr::from_bytes_bounded(b"", 8);
            check_handle(&t, &m);
            if n >= 4 {
                let p0 = t.as_str().as_ptr();
                let c = any_char();
                shim::forbid(true);
                t.push(c.c);
                shim::forbid(false);
                assert!(n <= 16 || t.as_str().as_ptr() == p0, "[C11] text moved on a push within with_capacity room");
                assert!(t.len() == c.w, "[C01] push after with_capacity");
            }
            kani::cover!(n > 1000, "large capacity granted");
            drop(t);
        }
        Err(_) => {
            assert!(n > shim::LIMIT - 16, "[C06] with_capacity(n) failed although the allocator would have served it");
            kani::cover!(true, "with_capacity refused");
        }
    }
    assert!(shim::live() == 0, "[MEM] leak after with_capacity");
    kani::cover!(true, "end of harness reached");
}

// ---------------------------------------------------------------------------------------------
// C05: allocation failure
// ---------------------------------------------------------------------------------------------
/// try_ form with the failure window open: any subset of the requests the operation issues is
/// refused by the solver.
pub fn step_fail(kind: u8, fam: u8, n0: usize, cap: usize, ns: u8, len: usize, la: usize, lb: usize, tgt_clone: bool, op: u8, k: usize, multi: bool, fail_at: usize, tf: bool) {
    let mut s = build(kind, fam, n0, cap, ns, len, la, lb, tgt_clone);
    shim::set_fail_at(fail_at);
    let sa = see(&s.a);
    let sb = see(&s.b);
    let p0 = s.t.as_str().as_ptr();
    let was_inline = p0 == (&s.t as *const LeanString as *const u8);
    let cap0 = s.t.capacity();
    let heap0 = s.t.is_heap_allocated();
    let before = shim::snap();
    shim::open_window();
    let ok = ops::apply_try(op, k, multi, &mut s.t, &mut s.m);
    shim::close_window();
    let after = shim::snap();
    let refused = after.fails > before.fails;
    if ok {
        assert!(!refused, "[C05] Ok although the allocator refused a request of this operation");
        kani::cover!(after.reqs > before.reqs, "succeeded with an allocator request");
    } else {
        assert!(refused, "[C05] Err(ReserveError) although no request was refused");
        assert!(s.t.capacity() == cap0, "[C05] capacity changed by a failed operation");
        assert!(s.t.is_heap_allocated() == heap0, "[C05] storage kind changed by a failed operation");
        if was_inline {
            assert!(s.t.as_str().as_ptr() == (&s.t as *const LeanString as *const u8), "[C05] inline text moved by a failed operation");
        } else {
            assert!(s.t.as_str().as_ptr() == p0, "[C05] text moved by a failed operation");
        }
        kani::cover!(true, "operation failed with ReserveError");
    }
    // on Err the model was not advanced: the target must still hold the old value
    check_handle(&s.t, &s.m);
    check_unchanged(&s.a, &s.ma, &sa);
    check_unchanged(&s.b, &s.mb, &sb);
    check_live_blocks(&s);
    // fully usable afterwards with a healthy allocator
    s.t.push('!');
    s.m.push_bytes(b"!");
    check_handle(&s.t, &s.m);
    check_unchanged(&s.a, &s.ma, &sa);
    epilogue(s, tf);
}

/// Plain form with the window open: the only panic is `unwrap_with_msg` and only when a request
/// was refused; a normal return means nothing was refused and the result is the model's.
pub fn step_fail_plain(kind: u8, fam: u8, n0: usize, cap: usize, ns: u8, len: usize, la: usize, lb: usize, tgt_clone: bool, op: u8, k: usize, multi: bool, fail_at: usize, tf: bool) {
    let mut s = build(kind, fam, n0, cap, ns, len, la, lb, tgt_clone);
    shim::set_fail_at(fail_at);
    let sa = see(&s.a);
    let sb = see(&s.b);
    let before = shim::snap();
    shim::open_window();
    unsafe { shim::S.forbid_after_fail = true };
    ops::apply(op, k, multi, &mut s.t, &mut s.m);
    unsafe { shim::S.forbid_after_fail = false };
    shim::close_window();
    assert!(shim::snap().fails == before.fails, "[C05] plain form returned normally although a request was refused");
    check_handle(&s.t, &s.m);
    check_unchanged(&s.a, &s.ma, &sa);
    check_unchanged(&s.b, &s.mb, &sb);
    epilogue(s, tf);
}

/// Display text of ReserveError (what the plain forms panic with).
pub fn reserve_error_text() {
    use core::fmt::Write;
    struct Sink {
        buf: [u8; 64],
        n: usize,
    }
    impl Write for Sink {
        fn write_str(&mut self, s: &str) -> core::fmt::Result {
            let b = s.as_bytes();
            let mut i = 0;
            while i < b.len() {
                if self.n < 64 {
                    self.buf[self.n] = b[i];
                    self.n += 1;
                }
                i += 1;
            }
            Ok(())
        }
    }
    let mut k = Sink { buf: [0; 64], n: 0 };
    let r = write!(k, "{}", ReserveError);
    assert!(r.is_ok(), "[C05] ReserveError Display failed");
    let want = b"Cannot allocate memory to hold LeanString";
    assert!(k.n == want.len(), "[C05] ReserveError message length");
    let mut i = 0;
    while i < want.len() {
        assert!(k.buf[i] == want[i], "[C05] ReserveError message text");
        i += 1;
    }
    kani::cover!(true, "end of harness reached");
}

// ---------------------------------------------------------------------------------------------
// C06: size arguments
// ---------------------------------------------------------------------------------------------
/// try_reserve(n) / reserve(n) over the whole usize range, split into three classes that together
/// cover every value (a symbolic capacity up to 2^40 together with content reads does not scale):
/// `class` 0: n <= 40 (all content checks), 1: 40 < n <= 2^40-64 (granted; only len/capacity/
/// block size/sharers are observed), 2: n > 2^40-64 up to usize::MAX (must fail cleanly).
pub fn sizes_reserve(kind: u8, fam: u8, n0: usize, cap: usize, ns: u8, len: usize, la: usize, lb: usize, tgt_clone: bool, plain: bool, class: u8, lit: usize, tf: bool) {
    let mut s = build(kind, fam, n0, cap, ns, len, la, lb, tgt_clone);
    let sa = see(&s.a);
    let sb = see(&s.b);
    // class 0 enumerates literal boundary values (a symbolic small n makes the capacity of a block
    // whose content is read symbolic, which exhausts memory); classes 1 and 2 are fully symbolic
    let n: usize = if lit != usize::MAX { lit } else { kani::any() };
    match class {
        0 => kani::assume(n <= 40),
        1 => kani::assume(n > 40 && n <= shim::LIMIT - 64),
        2 => kani::assume(n > shim::LIMIT),
        _ => kani::assume(n > shim::LIMIT - 64 && n <= shim::LIMIT), // the band around the allocator limit: either verdict, judged exactly
    }
    let len0 = s.t.len();
    let cap0 = s.t.capacity();
    let p0 = s.t.as_str().as_ptr();
    let heap0 = s.t.is_heap_allocated();
    let was_inline = p0 == (&s.t as *const LeanString as *const u8);
    let ok = if plain {
        s.t.reserve(n);
        true
    } else {
        s.t.try_reserve(n).is_ok()
    };
    // what the request amounts to: the amortised size incl. the 16-byte header must fit the allocator
    let need = match len0.checked_add(n) {
        None => usize::MAX,
        Some(x) => {
            let amort = len0 + len0 / 2;
            if x > amort { x } else { amort }
        }
    };
    let servable = need <= shim::LIMIT - 16;
    if ok {
        assert!(servable || (len0.checked_add(n).is_some() && cap0 >= len0 + n), "[C06] reserve(n) succeeded although the allocator cannot serve n bytes");
        assert!(len0.checked_add(n).is_some(), "[C06] reserve(n) succeeded although len+n overflows usize");
        assert!(s.t.capacity() >= len0 + n, "[C06] capacity() < len()+n after a successful reserve(n)");
        assert!(s.t.len() == len0, "[C06] reserve changed len()");
        if s.t.is_heap_allocated() {
            let p = s.t.as_str().as_ptr();
            assert!(shim::block_size_of_text_ptr(p) == s.t.capacity() + 16, "[C06] block smaller than the capacity written to its header");
        }
        kani::cover!(n > (1 << 30), "huge reserve granted");
    } else {
        assert!(!servable, "[C06] reserve(n) failed although the request could have been served");
        assert!(s.t.capacity() == cap0 && s.t.is_heap_allocated() == heap0, "[C06] failed reserve changed capacity/storage");
        if was_inline {
            assert!(s.t.as_str().as_ptr() == (&s.t as *const LeanString as *const u8), "[C06] failed reserve moved the text");
        } else {
            assert!(s.t.as_str().as_ptr() == p0, "[C06] failed reserve moved the text");
        }
        kani::cover!(true, "reserve refused");
    }
    check_unchanged(&s.a, &s.ma, &sa);
    check_unchanged(&s.b, &s.mb, &sb);
    if class == 1 || (class >= 2 && ok) {
        // granted with a symbolic capacity: drop without reading content through that block
        let St { t, a, b, .. } = s;
        if tf {
            drop(t);
            drop(a);
            drop(b);
        } else {
            drop(b);
            drop(a);
            drop(t);
        }
        assert!(shim::live() == 0, "[MEM] a block is still allocated after every handle was dropped (leak)");
        kani::cover!(true, "end of harness reached");
    } else {
        check_handle(&s.t, &s.m);
        check_live_blocks(&s);
        // still a working string
        s.t.push('!');
        s.m.push_bytes(b"!");
        check_handle(&s.t, &s.m);
        epilogue(s, tf);
    }
}

/// extend() driven by an iterator with a size_hint lower bound `lo` and <= 1 item.
/// `class` 0: `lo` is the literal `lit` (0/1 items, any char); 1: 40 < lo <= 2^40-64 symbolic, the
/// iterator is empty (the speculative reserve is granted; nothing is written into the symbolic-size
/// block); 2: lo > 2^40 symbolic (the speculative reserve fails and is ignored by design), 0/1 items.
pub fn sizes_extend(kind: u8, fam: u8, n0: usize, cap: usize, ns: u8, len: usize, la: usize, lb: usize, tgt_clone: bool, class: u8, lit: usize, tf: bool) {
    let mut s = build(kind, fam, n0, cap, ns, len, la, lb, tgt_clone);
    let sa = see(&s.a);
    let sb = see(&s.b);
    let lo: usize = if class == 0 { lit } else { kani::any() };
    match class {
        1 => kani::assume(lo > 40 && lo <= shim::LIMIT - 64),
        2 => kani::assume(lo > shim::LIMIT),
        _ => {}
    }
    let has: bool = if class == 1 { false } else { kani::any() };
    let c = any_char();
    let len0 = s.t.len();
    s.t.extend(ops::Hint { lo, item: if has { Some(c.c) } else { None } });
    if has {
        s.m.push_bytes(&c.bytes[..c.w]);
    }
    check_unchanged(&s.a, &s.ma, &sa);
    check_unchanged(&s.b, &s.mb, &sb);
    kani::cover!(lo > (1 << 57), "size hint beyond the 56-bit limit");
    if class == 1 {
        assert!(s.t.len() == len0 && s.t.capacity() >= len0 + lo, "[C06] extend with a size hint: len/capacity");
        let St { t, a, b, .. } = s;
        if tf {
            drop(t);
            drop(a);
            drop(b);
        } else {
            drop(b);
            drop(a);
            drop(t);
        }
        assert!(shim::live() == 0, "[MEM] a block is still allocated after every handle was dropped (leak)");
        kani::cover!(true, "end of harness reached");
    } else {
        check_handle(&s.t, &s.m);
        check_live_blocks(&s);
        epilogue(s, tf);
    }
}

/// collect() from an iterator with a solver-chosen size_hint lower bound and <= 1 item.
pub fn sizes_collect() {
    let lo: usize = kani::any();
    let has: bool = kani::any();
    let c = any_char();
    let t: LeanString = ops::Hint { lo, item: if has { Some(c.c) } else { None } }.collect();
    let mut m = ModelStr::from_bytes_bounded(b"", 8);
    if has {
        m.push_bytes(&c.bytes[..c.w]);
    }
    check_handle(&t, &m);
    kani::cover!(lo > (1 << 57), "size hint beyond the 56-bit limit");
    kani::cover!(lo > 16 && lo < 1000 && t.is_heap_allocated(), "hint honoured");
    drop(t);
    assert!(shim::live() == 0, "[MEM] leak after collect");
    kani::cover!(true, "end of harness reached");
}

/// try_shrink_to(n) for all n never fails with a healthy allocator and keeps INV (C13 has the
/// capacity postconditions).
pub fn sizes_shrink(kind: u8, fam: u8, n0: usize, cap: usize, ns: u8, len: usize, la: usize, lb: usize, tgt_clone: bool, tf: bool) {
    let mut s = build(kind, fam, n0, cap, ns, len, la, lb, tgt_clone);
    let sa = see(&s.a);
    let sb = see(&s.b);
    let n: usize = kani::any();
    let r = s.t.try_shrink_to(n);
    assert!(r.is_ok(), "[C06] try_shrink_to(n) failed with a healthy allocator");
    check_handle(&s.t, &s.m);
    check_unchanged(&s.a, &s.ma, &sa);
    check_unchanged(&s.b, &s.mb, &sb);
    check_live_blocks(&s);
    epilogue(s, tf);
}


// ---------------------------------------------------------------------------------------------
// C07: index arguments
// ---------------------------------------------------------------------------------------------
/// `iop`: 0 insert(rep char k) 1 insert_str(k) 2 remove 3 truncate; `try_form` selects try_*.
/// polarity `bad == false`: every index String accepts is accepted and gives String's result
/// (the try_ forms must return Ok).  `bad == true`: every index String panics on panics here -
/// the sentinel cover behind the call must be unreachable - and nothing is requested from the
/// allocator before the panic.
pub fn idx(kind: u8, fam: u8, n0: usize, cap: usize, ns: u8, len: usize, la: usize, lb: usize, tgt_clone: bool, iop: u8, k: usize, try_form: bool, bad: bool, tf: bool) {
    let mut s = build(kind, fam, n0, cap, ns, len, la, lb, tgt_clone);
    let sa = see(&s.a);
    let sb = see(&s.b);
    let i: usize = kani::any();
    let must_panic = match iop {
        0 | 1 => s.m.insert_panics(i),
        2 => s.m.remove_panics(i),
        _ => s.m.truncate_panics(i),
    };
    kani::assume(must_panic == bad);
    if bad {
        shim::forbid(true);
    }
    match iop {
        0 => {
            let c = rep_char(k);
            if try_form {
                let r = s.t.try_insert(i, c.c);
                assert!(r.is_ok(), "[C07] try_insert returned Err on a valid index");
            } else {
                s.t.insert(i, c.c);
            }
            if !bad {
                s.m.insert_bytes(i, &c.bytes[..c.w]);
            }
        }
        1 => {
            let a = any_str(k, false);
            if try_form {
                let r = s.t.try_insert_str(i, a.as_str());
                assert!(r.is_ok(), "[C07] try_insert_str returned Err on a valid index");
            } else {
                s.t.insert_str(i, a.as_str());
            }
            if !bad {
                s.m.insert_bytes(i, a.bytes());
            }
        }
        2 => {
            let c = if try_form {
                let r = s.t.try_remove(i);
                assert!(r.is_ok(), "[C07] try_remove returned Err on a valid index");
                r.unwrap_or('?')
            } else {
                s.t.remove(i)
            };
            if !bad {
                let x = s.m.remove(i);
                assert!(c as u32 == x, "[C07] remove returned a different char than String::remove");
            }
        }
        _ => {
            if try_form {
                let r = s.t.try_truncate(i);
                assert!(r.is_ok(), "[C07] try_truncate returned Err");
            } else {
                s.t.truncate(i);
            }
            if !bad {
                s.m.truncate(i);
            }
        }
    }
    if bad {
        kani::cover!(true, "call returned although String panics for this index");
        shim::forbid(false);
        core::mem::forget(s);
    } else {
        check_handle(&s.t, &s.m);
        check_unchanged(&s.a, &s.ma, &sa);
        check_unchanged(&s.b, &s.mb, &sb);
        check_live_blocks(&s);
        epilogue(s, tf);
    }
}
