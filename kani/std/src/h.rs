//! Harness bodies.  The case generator (`/verif/check`) emits one `harness!` per case into
//! `cases.rs`; every shape parameter below is a literal there, every argument of the operation
//! under test is chosen by the solver.

use crate::model::{self, ModelStr, MCAP};
use crate::ops::{self, *};
use crate::shim;
use crate::st::{self, *};
use crate::text::{self, *};
use lean_string::LeanString;

/// C01/C02/C03/C10: one operation from a canonical state; result and post-state equal the model,
/// INV holds on every handle, non-targets are untouched, the epilogue frees everything once.
pub fn step(kind: u8, fam: u8, n0: usize, cap: usize, ns: u8, len: usize, la: usize, lb: usize, tgt_clone: bool, op: u8, k: usize, multi: bool, tf: bool) {
    let mut s = build(kind, fam, n0, cap, ns, len, la, lb, tgt_clone);
    check_all(&s);
    let sa = see(&s.a);
    let sb = see(&s.b);
    ops::apply(op, k, multi, &mut s.t, &mut s.m);
    check_handle(&s.t, &s.m);
    check_unchanged(&s.a, &s.ma, &sa);
    check_unchanged(&s.b, &s.mb, &sb);
    check_live_blocks(&s);
    check_static_pristine();
    epilogue(s, tf);
}


// ---------------------------------------------------------------------------------------------
// C13: shrink_to / shrink_to_fit, all min_capacity values
// ---------------------------------------------------------------------------------------------
pub fn shrink(kind: u8, fam: u8, n0: usize, cap: usize, ns: u8, len: usize, la: usize, lb: usize, tgt_clone: bool, fit: bool, tf: bool) {
    let mut s = build(kind, fam, n0, cap, ns, len, la, lb, tgt_clone);
    let sa = see(&s.a);
    let sb = see(&s.b);
    let cap0 = s.t.capacity();
    let len0 = s.t.len();
    let heap0 = s.t.is_heap_allocated();
    let m: usize = if fit { 0 } else { kani::any() };
    if fit {
        s.t.shrink_to_fit();
    } else {
        s.t.shrink_to(m);
    }
    let cap1 = s.t.capacity();
    // text of every string unchanged
    check_handle(&s.t, &s.m);
    check_unchanged(&s.a, &s.ma, &sa);
    check_unchanged(&s.b, &s.mb, &sb);
    let floor16 = if cap0 > 16 { cap0 } else { 16 };
    assert!(cap1 <= floor16, "[C13] capacity grew by shrinking (beyond the inline size)");
    assert!(cap1 >= len0, "[C13] capacity below len after shrinking");
    let want = if m < cap0 { m } else { cap0 };
    assert!(cap1 >= want, "[C13] capacity below min(min_capacity, old capacity)");
    let target = if len0 > m { len0 } else { m };
    if heap0 && cap0 > target {
        if target <= 16 {
            assert!(!s.t.is_heap_allocated() && cap1 == 16, "[C13] heap string that fits inline was not moved inline");
        } else {
            assert!(cap1 == target, "[C13] heap capacity did not land on max(len, min_capacity)");
        }
        kani::cover!(ns > 0, "shrunk while shared");
    }
    if !heap0 {
        assert!(cap1 == cap0 && !s.t.is_heap_allocated(), "[C13] non-heap string changed storage by shrinking");
    }
    check_live_blocks(&s);
    epilogue(s, tf);
}

// ---------------------------------------------------------------------------------------------
// C12: growth events
// ---------------------------------------------------------------------------------------------
/// `gop`: 0 push(sym char), 1 push_str(k), 2 insert_str(idx sym, k), 3 reserve(n any <= 2^39), 4 insert(rep char k)
pub fn grow(kind: u8, fam: u8, n0: usize, cap: usize, ns: u8, len: usize, la: usize, lb: usize, tgt_clone: bool, gop: u8, k: usize, tf: bool) {
    let mut s = build(kind, fam, n0, cap, ns, len, la, lb, tgt_clone);
    let len0 = s.t.len();
    let cap0 = s.t.capacity();
    let before = shim::snap();
    let add: usize;
    match gop {
        0 => {
            let c = any_char();
            add = c.w;
            s.t.push(c.c);
            s.m.push_bytes(&c.bytes[..c.w]);
        }
        1 => {
            let a = any_str(k, false);
            add = k;
            s.t.push_str(a.as_str());
            s.m.push_bytes(a.bytes());
        }
        2 => {
            let a = any_str(k, false);
            let idx: usize = kani::any();
            kani::assume(!s.m.insert_panics(idx));
            add = k;
            s.t.insert_str(idx, a.as_str());
            s.m.insert_bytes(idx, a.bytes());
        }
        3 => {
            let n: usize = kani::any();
            kani::assume(n <= (1usize << 39));
            add = n;
            s.t.reserve(n);
        }
        _ => {
            let c = rep_char(k);
            let idx: usize = kani::any();
            kani::assume(!s.m.insert_panics(idx));
            add = c.w;
            s.t.insert(idx, c.c);
            s.m.insert_bytes(idx, &c.bytes[..c.w]);
        }
    }
    let after = shim::snap();
    let cap1 = s.t.capacity();
    check_handle(&s.t, &s.m);
    if after.reqs > before.reqs {
        // the operation outgrew (or had to leave) its storage: a growth event
        let amort = len0 + len0 / 2;
        let need = len0 + add;
        let hi = if amort > need { amort } else { need };
        assert!(after.reqs == before.reqs + 1, "[C12] more than one allocator request for one growth event");
        assert!(cap1 >= amort, "[C12] new capacity below old_len + old_len/2");
        assert!(cap1 <= hi, "[C12] new capacity above max(1.5 x old_len, old_len + additional)");
        assert!(cap1 >= need, "[C12] new capacity below the size actually required");
        kani::cover!(cap1 == amort && amort > need, "grew by the 1.5x rule");
        kani::cover!(true, "growth event");
    } else {
        assert!(cap1 == cap0, "[C12] capacity changed without an allocator request");
        assert!(len0 + add <= cap0, "[C12] no request although the result does not fit the old capacity");
    }
    epilogue(s, tf);
}

// ---------------------------------------------------------------------------------------------
// C11: capacity is a promise
// ---------------------------------------------------------------------------------------------
/// Within the capacity reported before the call, append/insert on an exclusively owned string
/// issues no request and does not move the text.  `cop`: 0 push(sym), 1 push_str(k), 2 insert_str(k), 3 insert(rep k)
pub fn within_cap(kind: u8, fam: u8, n0: usize, cap: usize, len: usize, cop: u8, k: usize) {
    let mut s = build(kind, fam, n0, cap, 0, len, 0, 0, false);
    let cap0 = s.t.capacity();
    let len0 = s.t.len();
    let p0 = s.t.as_str().as_ptr();
    assert!(cap0 >= len0, "[C11] capacity() < len()");
    let is_static = !s.t.is_heap_allocated() && p0 != (&s.t as *const LeanString as *const u8);
    match cop {
        0 => {
            let c = any_char();
            kani::assume(len0 + c.w <= cap0);
            shim::forbid(!is_static);
            s.t.push(c.c);
            shim::forbid(false);
            s.m.push_bytes(&c.bytes[..c.w]);
        }
        1 => {
            let a = any_str(k, false);
            kani::assume(len0 + k <= cap0);
            shim::forbid(!is_static);
            s.t.push_str(a.as_str());
            shim::forbid(false);
            s.m.push_bytes(a.bytes());
        }
        2 => {
            let a = any_str(k, false);
            let idx: usize = kani::any();
            kani::assume(!s.m.insert_panics(idx));
            kani::assume(len0 + k <= cap0);
            shim::forbid(!is_static);
            s.t.insert_str(idx, a.as_str());
            shim::forbid(false);
            s.m.insert_bytes(idx, a.bytes());
        }
        _ => {
            let c = rep_char(k);
            let idx: usize = kani::any();
            kani::assume(!s.m.insert_panics(idx));
            kani::assume(len0 + c.w <= cap0);
            shim::forbid(!is_static);
            s.t.insert(idx, c.c);
            shim::forbid(false);
            s.m.insert_bytes(idx, &c.bytes[..c.w]);
        }
    }
    if !is_static {
        // (a static string never "owns" its storage; its first write may allocate)
        assert!(s.t.as_str().as_ptr() == p0, "[C11] text moved although the result fits the reported capacity");
        assert!(s.t.capacity() == cap0, "[C11] capacity changed although the result fits");
    }
    check_handle(&s.t, &s.m);
    epilogue(s, true);
}

/// reserve(n) for all n: Ok => capacity >= len+n and exclusive ownership (a following append of
/// <= min(n,6) bytes issues no request and leaves every sharer alone).
pub fn reserve_promise(kind: u8, fam: u8, n0: usize, cap: usize, ns: u8, len: usize, la: usize, lb: usize, tgt_clone: bool, tf: bool) {
    let mut s = build(kind, fam, n0, cap, ns, len, la, lb, tgt_clone);
    let sa = see(&s.a);
    let sb = see(&s.b);
    let n: usize = kani::any();
    let len0 = s.t.len();
    let r = s.t.try_reserve(n);
    if r.is_ok() {
        assert!(len0.checked_add(n).is_some(), "[C11] reserve(n) Ok although len+n overflows");
        assert!(s.t.capacity() >= len0 + n, "[C11] capacity() < len()+n after a successful reserve(n)");
        check_handle(&s.t, &s.m);
        if n >= 3 {
            let p0 = s.t.as_str().as_ptr();
            let a = any_str(3, false);
            shim::forbid(true);
            s.t.push_str(a.as_str());
            shim::forbid(false);
            s.m.push_bytes(a.bytes());
            assert!(s.t.as_str().as_ptr() == p0, "[C11] text moved on an append within reserved room");
        }
        kani::cover!(n > 100, "large reserve granted");
    }
    check_handle(&s.t, &s.m);
    check_unchanged(&s.a, &s.ma, &sa);
    check_unchanged(&s.b, &s.mb, &sb);
    epilogue(s, tf);
}

/// with_capacity(n) for all n.
pub fn with_capacity_promise() {
    let n: usize = kani::any();
    let before = shim::snap();
    let r = LeanString::try_with_capacity(n);
    match r {
        Ok(mut t) => {
            assert!(t.capacity() >= n, "[C11] with_capacity(n).capacity() < n");
            assert!(t.len() == 0 && t.is_empty(), "[C11] with_capacity(n) is not empty");
            if n <= 16 {
                assert!(!t.is_heap_allocated() && shim::snap().reqs == before.reqs, "[C09] with_capacity(n<=16) touched the heap");
            } else {
                assert!(t.is_heap_allocated() && t.capacity() == n, "[C11] with_capacity(n>16) capacity != n");
                assert!(shim::snap().reqs == before.reqs + 1, "[C09] with_capacity(n>16) did not allocate exactly once");
            }
            let m = ModelStr::from_bytes_bounded(b"", 8);
            check_handle(&t, &m);
            if n >= 4 {
                let p0 = t.as_str().as_ptr();
                let c = any_char();
                shim::forbid(true);
                t.push(c.c);
                shim::forbid(false);
                assert!(n <= 16 || t.as_str().as_ptr() == p0, "[C11] text moved on a push within with_capacity room");
                assert!(t.len() == c.w, "[C01] push after with_capacity");
            }
            kani::cover!(n > 1000, "large capacity granted");
            drop(t);
        }
        Err(_) => {
            assert!(n > shim::LIMIT - 16, "[C06] with_capacity(n) failed although the allocator would have served it");
            kani::cover!(true, "with_capacity refused");
        }
    }
    assert!(shim::live() == 0, "[MEM] leak after with_capacity");
    kani::cover!(true, "end of harness reached");
}
