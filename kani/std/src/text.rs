//! Text families.  Every family yields valid UTF-8 *by construction* (range constraints on bytes,
//! never by running a validator – `core::str::from_utf8` on symbolic bytes does not scale).

pub const TMAX: usize = 32;

pub const FAM_A: u8 = 0; // n symbolic ASCII bytes
pub const FAM_T: u8 = 1; // prefix of the concrete template (all four widths), ASCII-padded
pub const FAM_M: u8 = 2; // layout 1,2,3,4,... with every byte symbolic inside its class
pub const FAM_M2: u8 = 3; // layout 4,3,2,1,...
pub const FAM_M3: u8 = 4; // layout 3,3,2,...
pub const FAM_C: u8 = 5; // concrete ASCII "abcdefgh..."

pub const TEMPLATE: &str = "aé€𝄞bé€𝄞cé€𝄞dé€𝄞";

#[cfg(kani)]
fn anyb() -> u8 {
    kani::any()
}
#[cfg(not(kani))]
fn anyb() -> u8 {
    crate::nk::any()
}
#[cfg(kani)]
fn assume(c: bool) {
    kani::assume(c)
}
#[cfg(not(kani))]
fn assume(c: bool) {
    crate::nk::assume(c)
}

/// Write one symbolic char of width `w` at `buf[at..at+w]`.
pub fn sym_char_at(buf: &mut [u8; TMAX], at: usize, w: usize) {
    let b0 = anyb();
    match w {
        1 => {
            assume(b0 < 0x80);
            buf[at] = b0;
        }
        2 => {
            let b1 = anyb();
            assume(b0 >= 0xC2 && b0 <= 0xDF);
            assume(b1 >= 0x80 && b1 <= 0xBF);
            buf[at] = b0;
            buf[at + 1] = b1;
        }
        3 => {
            let b1 = anyb();
            let b2 = anyb();
            assume(b0 >= 0xE0 && b0 <= 0xEF);
            assume(b1 >= 0x80 && b1 <= 0xBF);
            assume(b0 != 0xE0 || b1 >= 0xA0);
            assume(b0 != 0xED || b1 <= 0x9F);
            assume(b2 >= 0x80 && b2 <= 0xBF);
            buf[at] = b0;
            buf[at + 1] = b1;
            buf[at + 2] = b2;
        }
        _ => {
            let b1 = anyb();
            let b2 = anyb();
            let b3 = anyb();
            assume(b0 >= 0xF0 && b0 <= 0xF4);
            assume(b1 >= 0x80 && b1 <= 0xBF);
            assume(b0 != 0xF0 || b1 >= 0x90);
            assume(b0 != 0xF4 || b1 <= 0x8F);
            assume(b2 >= 0x80 && b2 <= 0xBF);
            assume(b3 >= 0x80 && b3 <= 0xBF);
            buf[at] = b0;
            buf[at + 1] = b1;
            buf[at + 2] = b2;
            buf[at + 3] = b3;
        }
    }
}

fn layout_width(fam: u8, k: usize) -> usize {
    match fam {
        FAM_M => [1, 2, 3, 4][k % 4],
        FAM_M2 => [4, 3, 2, 1][k % 4],
        _ => [3, 3, 2][k % 3],
    }
}

/// Produce `n` bytes of text of family `fam` (n concrete, n <= TMAX).
pub fn make(fam: u8, n: usize) -> [u8; TMAX] {
    let mut buf = [0u8; TMAX];
    match fam {
        FAM_A => {
            let mut i = 0;
            while i < n {
                let b = anyb();
                assume(b < 0x80);
                buf[i] = b;
                i += 1;
            }
        }
        FAM_C => {
            let mut i = 0;
            while i < n {
                buf[i] = b'a' + (i % 26) as u8;
                i += 1;
            }
        }
        FAM_T => {
            let t = TEMPLATE.as_bytes();
            // largest char boundary of the template that is <= n
            let mut cut = 0;
            let mut i = 0;
            while i <= n && i <= t.len() {
                if i == t.len() || (t[i] & 0xC0) != 0x80 {
                    cut = i;
                }
                i += 1;
            }
            let mut i = 0;
            while i < n {
                if i < cut {
                    buf[i] = t[i];
                } else {
                    buf[i] = b'x';
                }
                i += 1;
            }
        }
        _ => {
            let mut at = 0;
            let mut k = 0;
            while at < n {
                let mut w = layout_width(fam, k);
                if at + w > n {
                    w = 1; // pad with symbolic ASCII
                }
                sym_char_at(&mut buf, at, w);
                at += w;
                k += 1;
            }
        }
    }
    buf
}

/// `k` concrete ASCII bytes followed by one symbolic char of width `w` ending exactly at `k + w`.
pub fn make_l(k: usize, w: usize) -> [u8; TMAX] {
    let mut buf = [0u8; TMAX];
    let mut i = 0;
    while i < k {
        buf[i] = b'a' + (i % 26) as u8;
        i += 1;
    }
    sym_char_at(&mut buf, k, w);
    buf
}

/// Largest char boundary `<= l` of the `n`-byte text of family `fam`, computed from the family's
/// *layout* (never from symbolic bytes), so the result is a literal for the solver.
pub fn floor_boundary(fam: u8, n: usize, l: usize) -> usize {
    if l >= n {
        return n;
    }
    match fam {
        FAM_A | FAM_C => l,
        FAM_T => {
            let t = TEMPLATE.as_bytes();
            // prefix of the template up to `cut`, ASCII afterwards
            let mut cut = 0;
            let mut i = 0;
            while i <= n && i <= t.len() {
                if i == t.len() || (t[i] & 0xC0) != 0x80 {
                    cut = i;
                }
                i += 1;
            }
            if l >= cut {
                return l;
            }
            let mut r = l;
            while r > 0 && (t[r] & 0xC0) == 0x80 {
                r -= 1;
            }
            r
        }
        _ => {
            let mut at = 0;
            let mut k = 0;
            let mut r = 0;
            while at < n {
                let mut w = layout_width(fam, k);
                if at + w > n {
                    w = 1;
                }
                if at <= l {
                    r = at;
                }
                at += w;
                k += 1;
            }
            r
        }
    }
}
