//! Allocator shim.  Under Kani the functions below replace `alloc::alloc::{alloc,dealloc,realloc}`
//! through `#[kani::stub]` (no source hook in the crate under test).  Every request the crate (or
//! harness-side `String`/`Box`) issues is counted; size and alignment of live blocks are recorded
//! and compared at `dealloc`/`realloc`; inside a *failure window* the solver chooses which
//! requests are refused; inside a *forbid region* any request is a violation.
//!
//! `realloc` always moves the block (malloc + copy + free), so "the text did not move" can only
//! hold if no request was issued.  Out-of-bounds, use-after-free and double-free on the blocks
//! are CBMC's own pointer checks on the real accesses of the real code.

use core::alloc::Layout;

pub const MAXB: usize = 6;
/// Requests above this size are refused deterministically (a real allocator cannot serve them).
pub const LIMIT: usize = 1 << 40;

pub struct Shim {
    pub reqs: usize,
    pub frees: usize,
    pub live: usize,
    pub fails: usize,
    pub window: bool,
    pub forbid: bool,
    pub ptr: [*mut u8; MAXB],
    pub size: [usize; MAXB],
    pub align: [usize; MAXB],
    pub last_size: usize,
    /// number of successful requests that returned a *new* block address (alloc or realloc)
    pub moves: usize,
    /// once a request was refused inside the window, any further request is a violation
    pub forbid_after_fail: bool,
    pub fails_at_open: usize,
    pub reqs_at_open: usize,
    /// 0: the solver chooses per request; k > 0: exactly the k-th request inside the window is refused
    pub fail_at: usize,
}

pub static mut S: Shim = Shim {
    reqs: 0,
    frees: 0,
    live: 0,
    fails: 0,
    window: false,
    forbid: false,
    ptr: [core::ptr::null_mut(); MAXB],
    size: [0; MAXB],
    align: [0; MAXB],
    last_size: 0,
    moves: 0,
    forbid_after_fail: false,
    fails_at_open: 0,
    reqs_at_open: 0,
    fail_at: 0,
};

unsafe extern "C" {
    fn malloc(n: usize) -> *mut u8;
    fn free(p: *mut u8);
}

/// Under Kani a shim check is an assertion.  In a native replay the allocator must not panic
/// (a panic inside the global allocator aborts the process), so the first violated check is recorded
/// and reported after the run.
#[cfg(kani)]
macro_rules! shim_assert {
    ($c:expr, $m:literal) => {
        assert!($c, $m)
    };
}
#[cfg(not(kani))]
pub static mut NATIVE_VIOLATION: Option<&'static str> = None;
#[cfg(not(kani))]
macro_rules! shim_assert {
    ($c:expr, $m:literal) => {
        #[allow(unused_unsafe)]
        unsafe {
            if !($c) && NATIVE_VIOLATION.is_none() {
                NATIVE_VIOLATION = Some($m);
            }
        }
    };
}

#[cfg(kani)]
#[inline(always)]
fn choose_fail() -> bool {
    kani::any()
}
#[cfg(not(kani))]
fn choose_fail() -> bool {
    crate::nk::any()
}

unsafe fn decide_fail() -> bool {
    unsafe {
        if S.fail_at == 0 {
            choose_fail()
        } else {
            S.reqs - S.reqs_at_open == S.fail_at
        }
    }
}

unsafe fn find(p: *mut u8) -> usize {
    unsafe {
        let mut i = 0;
        let mut r = MAXB;
        while i < MAXB {
            if S.ptr[i] == p && r == MAXB {
                r = i;
            }
            i += 1;
        }
        r
    }
}

unsafe fn record(p: *mut u8, size: usize, align: usize) {
    unsafe {
        let slot = find(core::ptr::null_mut());
        shim_assert!(slot < MAXB, "[shim] more live blocks than the shim tracks");
        if slot >= MAXB {
            return;
        }
        S.ptr[slot] = p;
        S.size[slot] = size;
        S.align[slot] = align;
        S.live += 1;
        S.moves += 1;
        S.last_size = size;
    }
}

pub unsafe fn shim_alloc(layout: Layout) -> *mut u8 {
    unsafe {
        S.reqs += 1;
        shim_assert!(!S.forbid, "[shim] allocator request inside a no-request region");
        shim_assert!(!(S.forbid_after_fail && S.window && S.fails > S.fails_at_open), "[shim] allocator request after a refused request, before the panic");
        shim_assert!(layout.size() > 0, "[shim] zero-sized request");
        if layout.size() > LIMIT {
            S.fails += 1;
            return core::ptr::null_mut();
        }
        if S.window && decide_fail() {
            S.fails += 1;
            return core::ptr::null_mut();
        }
        let p = malloc(layout.size());
        #[cfg(kani)]
        kani::assume(!p.is_null());
        record(p, layout.size(), layout.align());
        p
    }
}

pub unsafe fn shim_dealloc(ptr: *mut u8, layout: Layout) {
    unsafe {
        let slot = find(ptr);
        shim_assert!(slot < MAXB, "[shim] dealloc of a block that is not live (double free / invalid free)");
        if slot >= MAXB {
            return;
        }
        shim_assert!(S.size[slot] == layout.size(), "[shim] dealloc with a size different from the allocation");
        shim_assert!(S.align[slot] == layout.align(), "[shim] dealloc with an alignment different from the allocation");
        S.ptr[slot] = core::ptr::null_mut();
        S.frees += 1;
        S.live -= 1;
        free(ptr);
    }
}

pub unsafe fn shim_realloc(ptr: *mut u8, layout: Layout, new_size: usize) -> *mut u8 {
    unsafe {
        S.reqs += 1;
        shim_assert!(!S.forbid, "[shim] allocator request inside a no-request region");
        shim_assert!(!(S.forbid_after_fail && S.window && S.fails > S.fails_at_open), "[shim] allocator request after a refused request, before the panic");
        let slot = find(ptr);
        shim_assert!(slot < MAXB, "[shim] realloc of a block that is not live");
        if slot >= MAXB {
            return core::ptr::null_mut();
        }
        shim_assert!(S.size[slot] == layout.size(), "[shim] realloc with a size different from the allocation");
        shim_assert!(S.align[slot] == layout.align(), "[shim] realloc with an alignment different from the allocation");
        shim_assert!(new_size > 0, "[shim] zero-sized realloc");
        if new_size > LIMIT {
            S.fails += 1;
            return core::ptr::null_mut();
        }
        if S.window && decide_fail() {
            S.fails += 1;
            return core::ptr::null_mut();
        }
        let p = malloc(new_size);
        #[cfg(kani)]
        kani::assume(!p.is_null());
        let n = if layout.size() < new_size { layout.size() } else { new_size };
        core::ptr::copy_nonoverlapping(ptr, p, n);
        free(ptr);
        S.ptr[slot] = p;
        S.size[slot] = new_size;
        S.moves += 1;
        S.last_size = new_size;
        p
    }
}

/// Snapshot of the counters, for deltas across a call.
#[derive(Clone, Copy)]
pub struct Snap {
    pub reqs: usize,
    pub frees: usize,
    pub live: usize,
    pub fails: usize,
    pub moves: usize,
}

pub fn snap() -> Snap {
    unsafe { Snap { reqs: S.reqs, frees: S.frees, live: S.live, fails: S.fails, moves: S.moves } }
}
pub fn open_window() {
    unsafe {
        S.window = true;
        S.fails_at_open = S.fails;
        S.reqs_at_open = S.reqs;
    }
}
pub fn set_fail_at(k: usize) {
    unsafe { S.fail_at = k }
}
pub fn close_window() {
    unsafe { S.window = false }
}
pub fn forbid(on: bool) {
    unsafe { S.forbid = on }
}
pub fn live() -> usize {
    unsafe { S.live }
}
/// Is `p` the start of the text area of a live block?  (header is 16 bytes on 64-bit)
pub fn is_live_text_ptr(p: *const u8) -> bool {
    unsafe {
        let mut i = 0;
        let mut r = false;
        while i < MAXB {
            if !S.ptr[i].is_null() && S.ptr[i].wrapping_add(16) as *const u8 == p {
                r = true;
            }
            i += 1;
        }
        r
    }
}
/// Size recorded for the live block whose text area starts at `p` (0 if none).
pub fn block_size_of_text_ptr(p: *const u8) -> usize {
    unsafe {
        let mut i = 0;
        let mut r = 0;
        while i < MAXB {
            if !S.ptr[i].is_null() && S.ptr[i].wrapping_add(16) as *const u8 == p {
                r = S.size[i];
            }
            i += 1;
        }
        r
    }
}

/// Stub for `castaway::utils::type_eq_non_static` (used by `to_lean_string`'s `match_type!`).
/// The original obtains a `TypeId` through a `dyn` call, which the model checker cannot resolve
/// statically, so every arm of the type dispatch stays live (and the float/128-bit arms then run on
/// reinterpreted garbage).  Type equality is decided by `type_name` instead - exact for the
/// lifetime-free types the dispatch distinguishes.  The order of the arms and their bodies are the
/// crate's own code.
pub fn type_eq_stub<T: ?Sized, U: ?Sized>() -> bool {
    let a = core::any::type_name::<T>().as_bytes();
    let b = core::any::type_name::<U>().as_bytes();
    let n = a.len();
    if n != b.len() {
        return false;
    }
    // loop-free (unrolled) comparison, so that harnesses can keep a tiny unwind bound for the
    // formatter's own loops
    shim_assert!(n <= 48, "[shim] type name longer than the unrolled comparison");
    let mut eq = true;
    macro_rules! at {
        ($($i:literal)*) => { $( if $i < n && a[$i] != b[$i] { eq = false; } )* };
    }
    at!(0 1 2 3 4 5 6 7 8 9 10 11 12 13 14 15 16 17 18 19 20 21 22 23 24 25 26 27 28 29 30 31 32 33 34 35 36 37 38 39 40 41 42 43 44 45 46 47);
    eq
}

/// `Global::{deallocate,grow,shrink}` of this toolchain call the private `dealloc_nonnull` /
/// `realloc_nonnull` instead of the public functions; route them to the shim too so that
/// harness-side `String`/`Box` values are accounted consistently.
pub unsafe fn shim_dealloc_nonnull(ptr: core::ptr::NonNull<u8>, layout: Layout) {
    unsafe { shim_dealloc(ptr.as_ptr(), layout) }
}
pub unsafe fn shim_realloc_nonnull(ptr: core::ptr::NonNull<u8>, layout: Layout, new_size: usize) -> *mut u8 {
    unsafe { shim_realloc(ptr.as_ptr(), layout, new_size) }
}


// ---------------------------------------------------------------------------------------------
// Native replay: the same shim behind a #[global_allocator], active only while a replay runs.
// ---------------------------------------------------------------------------------------------
#[cfg(not(kani))]
std::thread_local! {
    /// only the thread that runs the replay sees the shim (const-initialised, no destructor: safe to
    /// touch from inside the allocator)
    static IN_REPLAY: core::cell::Cell<bool> = const { core::cell::Cell::new(false) };
}
#[cfg(not(kani))]
fn active() -> bool {
    IN_REPLAY.try_with(|c| c.get()).unwrap_or(false)
}
#[cfg(not(kani))]
fn set_active(v: bool) {
    let _ = IN_REPLAY.try_with(|c| c.set(v));
}
#[cfg(not(kani))]
pub struct ShimAlloc;
#[cfg(not(kani))]
unsafe impl core::alloc::GlobalAlloc for ShimAlloc {
    unsafe fn alloc(&self, layout: Layout) -> *mut u8 {
        unsafe {
            if active() {
                shim_alloc(layout)
            } else {
                std::alloc::System.alloc(layout)
            }
        }
    }
    unsafe fn dealloc(&self, ptr: *mut u8, layout: Layout) {
        unsafe {
            if active() && find(ptr) < MAXB {
                shim_dealloc(ptr, layout)
            } else {
                std::alloc::System.dealloc(ptr, layout)
            }
        }
    }
    unsafe fn realloc(&self, ptr: *mut u8, layout: Layout, new_size: usize) -> *mut u8 {
        unsafe {
            if active() && find(ptr) < MAXB {
                shim_realloc(ptr, layout, new_size)
            } else {
                std::alloc::System.realloc(ptr, layout, new_size)
            }
        }
    }
}
#[cfg(not(kani))]
#[global_allocator]
static GLOBAL: ShimAlloc = ShimAlloc;

/// Run `f` as a replay: shim active, counters reset.  Returns "ok" | "assume" | the panic message.
#[cfg(not(kani))]
pub fn replay<F: FnOnce() + std::panic::UnwindSafe>(vals: &[&[u8]], f: F) -> String {
    crate::nk::load(vals);
    unsafe {
        S.reqs = 0;
        S.frees = 0;
        S.live = 0;
        S.fails = 0;
        S.window = false;
        S.forbid = false;
        S.moves = 0;
        S.forbid_after_fail = false;
        S.fail_at = 0;
        S.ptr = [core::ptr::null_mut(); MAXB];
        NATIVE_VIOLATION = None;
    }
    // the shim is switched off the moment a panic starts (message formatting allocates)
    let prev = std::panic::take_hook();
    std::panic::set_hook(Box::new(|_| set_active(false)));
    set_active(true);
    let r = std::panic::catch_unwind(f);
    set_active(false);
    std::panic::set_hook(prev);
    if let Some(m) = unsafe { NATIVE_VIOLATION } {
        return format!("panic: {m}");
    }
    match r {
        Ok(()) => "ok".to_string(),
        Err(e) => {
            if e.downcast_ref::<crate::nk::AssumeFailed>().is_some() {
                "assume".to_string()
            } else if let Some(s) = e.downcast_ref::<&str>() {
                format!("panic: {s}")
            } else if let Some(s) = e.downcast_ref::<String>() {
                format!("panic: {s}")
            } else {
                "panic: <non-string payload>".to_string()
            }
        }
    }
}
