//! Harness bodies, part 2: cloning (C08), inline storage (C09), static text (C10),
//! to_lean_string (C15), comparison traits (C17), layout/niche (C20).

#[cfg(not(kani))]
use crate::nk as kani;
use crate::model::{self, ModelStr, MCAP};
use crate::ops::{self, *};
use crate::shim;
use crate::st::{self, *};
use crate::text::{self, *};
use alloc::borrow::Cow;
use alloc::boxed::Box;
use alloc::string::String;
use core::str::FromStr;
use lean_string::{LeanString, ToLeanString};

fn self_ptr(h: &LeanString) -> *const u8 {
    h as *const LeanString as *const u8
}

// ---------------------------------------------------------------------------------------------
// C08: cloning is O(1)
// ---------------------------------------------------------------------------------------------
/// `how`: 0 clone, 1 clone_from into an inline handle, 2 clone_from into a heap handle (whose
/// old buffer must be released exactly then), 3 From<&LeanString>, 4 to_lean_string(),
/// 5 clone_from into a handle that already shares the source's buffer but carries a shorter length.
pub fn clone_o1(kind: u8, fam: u8, n0: usize, cap: usize, ns: u8, len: usize, la: usize, lb: usize, tgt_clone: bool, how: u8, tf: bool) {
    let mut s = build(kind, fam, n0, cap, ns, len, la, lb, tgt_clone);
    let p = s.t.as_str().as_ptr();
    let src_inline = p == self_ptr(&s.t);
    let mut dst = if how == 2 {
        LeanString::from("ZZZZZZZZZZZZZZZZZZZZ")
    } else if how == 5 {
        let mut d = s.t.clone();
        d.truncate(0);
        d
    } else {
        LeanString::from("zz")
    };
    let before = shim::snap();
    shim::forbid(true);
    let c: LeanString = match how {
        0 => s.t.clone(),
        1 | 2 | 5 => {
            dst.clone_from(&s.t);
            core::mem::replace(&mut dst, LeanString::new())
        }
        3 => LeanString::from(&s.t),
        _ => s.t.to_lean_string(),
    };
    shim::forbid(false);
    let after = shim::snap();
    assert!(after.reqs == before.reqs, "[C08] cloning issued an allocator request");
    if how == 2 {
        assert!(after.frees == before.frees + 1, "[C08] clone_from did not release the destination's old buffer exactly once");
    } else {
        assert!(after.frees == before.frees, "[C08] cloning released a buffer");
    }
    if src_inline {
        assert!(c.as_str().as_ptr() == self_ptr(&c) && !c.is_heap_allocated(), "[C08] copy of an inline string is not inline");
    } else {
        assert!(c.as_str().as_ptr() == p, "[C08] copy of a heap/static string does not point at the same bytes");
        assert!(c.is_heap_allocated() == s.t.is_heap_allocated(), "[C08] copy changed storage kind");
    }
    assert!(c.len() == s.t.len() && c.capacity() == s.t.capacity(), "[C08] copy differs in len/capacity");
    assert!(c == s.t, "[C08] copy does not compare equal to the original");
    check_handle(&c, &s.m);
    check_all(&s);
    drop(dst);
    // dropping either one leaves the other intact
    if tf {
        drop(c);
        check_all(&s);
        epilogue(s, true);
    } else {
        let mut c = c;
        core::mem::swap(&mut c, &mut s.t);
        drop(c); // the original target
        check_all(&s);
        epilogue(s, false);
    }
}

/// Clone of an empty heap buffer of *any* capacity up to 2^40 (no loop over the size anywhere).
pub fn clone_any_capacity() {
    let cap: usize = kani::any();
    kani::assume(cap > 16 && cap <= (1usize << 40) - 16);
    let t = LeanString::with_capacity(cap);
    let before = shim::snap();
    shim::forbid(true);
    let c = t.clone();
    shim::forbid(false);
    assert!(shim::snap().reqs == before.reqs, "[C08] cloning issued an allocator request");
    assert!(c.as_str().as_ptr() == t.as_str().as_ptr(), "[C08] copy does not share the buffer");
    assert!(c.capacity() == cap && c.len() == 0, "[C08] copy differs in len/capacity");
    drop(t);
    assert!(shim::live() == 1, "[C08] buffer released while a clone is alive");
    assert!(c.capacity() == cap, "[C08] clone unreadable after the original was dropped");
    drop(c);
    assert!(shim::live() == 0, "[MEM] leak");
    kani::cover!(cap > (1 << 30), "huge capacity");
    kani::cover!(true, "end of harness reached");
}

/// Clone of an `n`-byte text (n <= 4096).
pub fn clone_4k(n: usize) {
    static BIG: [u8; 4096] = [b'k'; 4096];
    let s = unsafe { core::str::from_utf8_unchecked(&BIG[..n]) };
    let t = LeanString::from(s);
    let before = shim::snap();
    shim::forbid(true);
    let c = t.clone();
    let mut d = LeanString::new();
    d.clone_from(&c);
    let e = c.to_lean_string();
    shim::forbid(false);
    assert!(shim::snap().reqs == before.reqs, "[C08] cloning 4 KiB issued an allocator request");
    assert!(c.as_str().as_ptr() == t.as_str().as_ptr() && d.as_str().as_ptr() == t.as_str().as_ptr() && e.as_str().as_ptr() == t.as_str().as_ptr(),
        "[C08] copies do not share the 4 KiB buffer");
    assert!(c.len() == n && d.len() == n && e.len() == n, "[C08] len of the copies");
    drop(t);
    drop(c);
    assert!(shim::live() == 1, "[C08] buffer released while clones are alive");
    assert!(d.as_bytes()[n - 1] == b'k' && e.as_bytes()[0] == b'k', "[C08] clone unreadable after the original was dropped");
    drop(d);
    drop(e);
    assert!(shim::live() == 0, "[MEM] leak");
    kani::cover!(true, "end of harness reached");
}

// ---------------------------------------------------------------------------------------------
// C09: <= 16 bytes never touch the heap; longer texts allocate once, exactly
// ---------------------------------------------------------------------------------------------
fn judge(t: &LeanString, n: usize, before: shim::Snap, m: &ModelStr) {
    let after = shim::snap();
    if n <= 16 {
        assert!(after.reqs == before.reqs, "[C09] a text of <= 16 bytes caused an allocator request");
        assert!(!t.is_heap_allocated(), "[C09] a text of <= 16 bytes reports is_heap_allocated()");
        assert!(t.as_str().as_ptr() == self_ptr(t), "[C09] a text of <= 16 bytes is not stored in the handle");
        assert!(t.capacity() == 16, "[C09] inline capacity != 16");
    } else {
        assert!(after.reqs == before.reqs + 1, "[C09] a longer text did not allocate exactly once");
        assert!(t.is_heap_allocated(), "[C09] a longer text is not on the heap");
        assert!(t.capacity() == n, "[C09] capacity != len for a text built from a longer source");
    }
    check_handle(t, m);
}

/// `which`: 0 From<&str> 1 From<String> 2 From<&String> 3 From<Box<str>> 4 From<Cow::Borrowed>
/// 5 From<Cow::Owned> 6 FromStr 7 from_utf8 8 String::to_lean_string 9 from_utf8_unchecked
/// `lw > 0`: the text is `n - lw` concrete ASCII bytes + one symbolic char of width `lw` ending at `n`.
pub fn ctor(which: u8, fam: u8, n: usize, lw: usize) {
    let txt = if lw > 0 { make_l(n - lw, lw) } else { make(fam, n) };
    let s: &str = unsafe { core::str::from_utf8_unchecked(&txt[..n]) };
    let m = ModelStr::from_bytes_bounded(&txt[..n], n + 1);
    let t = match which {
        0 => {
            let b = shim::snap();
            let t = LeanString::from(s);
            judge(&t, n, b, &m);
            t
        }
        1 => {
            let st = String::from(s);
            let b = shim::snap();
            let t = LeanString::from(st);
            judge(&t, n, b, &m);
            t
        }
        2 => {
            let st = String::from(s);
            let b = shim::snap();
            let t = LeanString::from(&st);
            judge(&t, n, b, &m);
            drop(st);
            t
        }
        3 => {
            let bx: Box<str> = Box::from(s);
            let b = shim::snap();
            let t = LeanString::from(bx);
            judge(&t, n, b, &m);
            t
        }
        4 => {
            let b = shim::snap();
            let t = LeanString::from(Cow::Borrowed(s));
            judge(&t, n, b, &m);
            t
        }
        5 => {
            let st = String::from(s);
            let b = shim::snap();
            let t = LeanString::from(Cow::<str>::Owned(st));
            judge(&t, n, b, &m);
            t
        }
        6 => {
            let b = shim::snap();
            let r = LeanString::from_str(s);
            assert!(r.is_ok(), "[C09] FromStr failed");
            let t = r.unwrap_or(LeanString::new());
            judge(&t, n, b, &m);
            t
        }
        7 => {
            let b = shim::snap();
            let r = LeanString::from_utf8(&txt[..n]);
            assert!(r.is_ok(), "[C16] from_utf8 rejected valid UTF-8");
            let t = r.unwrap_or(LeanString::new());
            judge(&t, n, b, &m);
            t
        }
        8 => {
            let st = String::from(s);
            let b = shim::snap();
            let t = st.to_lean_string();
            judge(&t, n, b, &m);
            drop(st);
            t
        }
        _ => {
            let b = shim::snap();
            let t = unsafe { LeanString::from_utf8_unchecked(&txt[..n]) };
            judge(&t, n, b, &m);
            t
        }
    };
    drop(t);
    assert!(shim::live() == 0, "[MEM] leak after construction + drop");
    kani::cover!(true, "end of harness reached");
}

/// From<char> for every char: inline, no request, right text.
pub fn ctor_char() {
    let c = any_char();
    let m = ModelStr::from_bytes_bounded(&c.bytes[..c.w], 5);
    let b = shim::snap();
    shim::forbid(true);
    let t = LeanString::from(c.c);
    shim::forbid(false);
    judge(&t, 1, b, &m);
    kani::cover!(c.w == 4, "4-byte char");
    kani::cover!(true, "end of harness reached");
}

/// loop-free comparison of a handle with up to 5 expected bytes
fn expect_bytes(t: &LeanString, e: &[u8; 5], n: usize) {
    assert!(t.len() == n, "[C15] to_lean_string length differs from to_string");
    let b = t.as_bytes();
    assert!(b.len() == n, "[C15] as_bytes().len()");
    if n > 0 {
        assert!(b[0] == e[0], "[C15] byte 0 differs from to_string");
    }
    if n > 1 {
        assert!(b[1] == e[1], "[C15] byte 1 differs from to_string");
    }
    if n > 2 {
        assert!(b[2] == e[2], "[C15] byte 2 differs from to_string");
    }
    if n > 3 {
        assert!(b[3] == e[3], "[C15] byte 3 differs from to_string");
    }
    if n > 4 {
        assert!(b[4] == e[4], "[C15] byte 4 differs from to_string");
    }
    assert!(!t.is_heap_allocated() && t.capacity() == 16, "[C09] short text is not inline");
}

/// char.to_lean_string() for every char (== encode_utf8), no request.
pub fn char_to_ls() {
    let c = any_char();
    let b = shim::snap();
    shim::forbid(true);
    let u = c.c.to_lean_string();
    shim::forbid(false);
    let e = [c.bytes[0], c.bytes[1], c.bytes[2], c.bytes[3], 0];
    expect_bytes(&u, &e, c.w);
    assert!(shim::snap().reqs == b.reqs, "[C09] char.to_lean_string() touched the heap");
    let r = c.c.try_to_lean_string();
    assert!(r.is_ok(), "[C15] try_to_lean_string(char) failed");
    kani::cover!(c.w == 3, "3-byte char");
    kani::cover!(true, "end of harness reached");
}

/// bool.to_lean_string() for both values.
pub fn bool_to_ls() {
    let bo: bool = kani::any();
    let b = shim::snap();
    shim::forbid(true);
    let v = bo.to_lean_string();
    shim::forbid(false);
    if bo {
        expect_bytes(&v, b"true\0", 4);
    } else {
        expect_bytes(&v, b"false", 5);
    }
    assert!(shim::snap().reqs == b.reqs, "[C09] bool.to_lean_string() touched the heap");
    kani::cover!(bo, "true");
    kani::cover!(!bo, "false");
    kani::cover!(true, "end of harness reached");
}

/// In-place edits of an inline string that stay within 16 bytes never request memory.
/// `eop`: 0 push(any char) 1 push_str(k) 2 insert(idx, rep k) 3 insert_str(idx,k) 4 pop 5 remove
/// 6 retain 7 truncate 8 clear
pub fn inline_edit(fam: u8, n0: usize, len: usize, eop: u8, k: usize) {
    let mut s = build(K_INLINE, fam, n0, 0, 0, len, 0, 0, false);
    let len0 = s.t.len();
    let before = shim::snap();
    match eop {
        0 => {
            let c = any_char();
            kani::assume(len0 + c.w <= 16);
            shim::forbid(true);
            s.t.push(c.c);
            s.m.push_bytes(&c.bytes[..c.w]);
        }
        1 => {
            let a = any_str(k, false);
            kani::assume(len0 + k <= 16);
            shim::forbid(true);
            s.t.push_str(a.as_str());
            s.m.push_bytes(a.bytes());
        }
        2 => {
            let c = rep_char(k);
            let i: usize = kani::any();
            kani::assume(!s.m.insert_panics(i));
            kani::assume(len0 + c.w <= 16);
            shim::forbid(true);
            s.t.insert(i, c.c);
            s.m.insert_bytes(i, &c.bytes[..c.w]);
        }
        3 => {
            let a = any_str(k, false);
            let i: usize = kani::any();
            kani::assume(!s.m.insert_panics(i));
            kani::assume(len0 + k <= 16);
            shim::forbid(true);
            s.t.insert_str(i, a.as_str());
            s.m.insert_bytes(i, a.bytes());
        }
        4 => {
            shim::forbid(true);
            ops::apply(POP, 0, false, &mut s.t, &mut s.m);
        }
        5 => {
            kani::assume(len0 > 0);
            shim::forbid(true);
            ops::apply(REMOVE, 0, false, &mut s.t, &mut s.m);
        }
        6 => {
            shim::forbid(true);
            ops::apply(RETAIN, 0, false, &mut s.t, &mut s.m);
        }
        7 => {
            shim::forbid(true);
            ops::apply(TRUNCATE, 0, false, &mut s.t, &mut s.m);
        }
        _ => {
            shim::forbid(true);
            ops::apply(CLEAR, 0, false, &mut s.t, &mut s.m);
        }
    }
    shim::forbid(false);
    assert!(shim::snap().reqs == before.reqs, "[C09] an edit that stays within 16 bytes caused an allocator request");
    assert!(!s.t.is_heap_allocated() && s.t.as_str().as_ptr() == self_ptr(&s.t), "[C09] an edit that stays within 16 bytes left the inline storage");
    check_handle(&s.t, &s.m);
    kani::cover!(s.t.len() == 16, "exactly 16 bytes after the edit");
    epilogue(s, true);
}

// ---------------------------------------------------------------------------------------------
// C10: static text
// ---------------------------------------------------------------------------------------------
/// `sop`: 0 clone 1 pop 2 truncate(any) 3 clear 4 clone_from(static into heap handle) 5 nothing
pub fn static_ops(fam: u8, n0: usize, len: usize, sop: u8) {
    let before = shim::snap();
    shim::forbid(true);
    let mut s = build(K_STATIC, fam, n0, 0, 0, len, 0, 0, false);
    shim::forbid(false);
    assert!(shim::snap().reqs == before.reqs, "[C10] from_static_str issued an allocator request");
    let arr = unsafe { STATIC_TEXT.as_ptr() };
    if n0 > 16 {
        assert!(s.t.as_str().as_ptr() == arr, "[C10] static string does not point at the caller's bytes");
        assert!(!s.t.is_heap_allocated(), "[C10] static string reports heap");
    } else {
        assert!(s.t.as_str().as_ptr() == self_ptr(&s.t), "[C10] short static text is not inline");
    }
    check_handle(&s.t, &s.m);
    let mut extra_reqs = 0;
    shim::forbid(true);
    match sop {
        0 => {
            let c = s.t.clone();
            assert!(n0 <= 16 || c.as_str().as_ptr() == arr, "[C10] clone of a static string does not point at the caller's bytes");
            check_handle(&c, &s.m);
            drop(c);
        }
        1 => ops::apply(POP, 0, false, &mut s.t, &mut s.m),
        2 => ops::apply(TRUNCATE, 0, false, &mut s.t, &mut s.m),
        3 => ops::apply(CLEAR, 0, false, &mut s.t, &mut s.m),
        4 => {
            shim::forbid(false);
            let mut d = LeanString::from("ZZZZZZZZZZZZZZZZZZZZ"); // (the destination's own buffer: 1 request)
            shim::forbid(true);
            extra_reqs = 1;
            d.clone_from(&s.t);
            assert!(n0 <= 16 || d.as_str().as_ptr() == arr, "[C10] clone_from of a static string does not point at the caller's bytes");
            check_handle(&d, &s.m);
            drop(d);
        }
        _ => {}
    }
    shim::forbid(false);
    assert!(shim::snap().reqs == before.reqs + extra_reqs, "[C10] clone/pop/truncate/clear of a static string issued an allocator request");
    if n0 > 16 {
        assert!(s.t.as_str().as_ptr() == arr, "[C10] static string moved by clone/pop/truncate/clear");
    }
    check_handle(&s.t, &s.m);
    check_static_pristine();
    epilogue(s, true);
}

// ---------------------------------------------------------------------------------------------
// C15: to_lean_string for non-integers
// ---------------------------------------------------------------------------------------------
pub struct Pieces {
    pub p: [SymStr; 3],
    pub n: usize,
    pub fail_after: usize, // return Err after writing this many pieces (>= n: never)
}
impl core::fmt::Display for Pieces {
    fn fmt(&self, f: &mut core::fmt::Formatter<'_>) -> core::fmt::Result {
        let mut i = 0;
        while i < 3 {
            if i < self.n {
                if i == self.fail_after {
                    return Err(core::fmt::Error);
                }
                f.write_str(self.p[i].as_str())?;
            }
            i += 1;
        }
        if self.fail_after == self.n {
            return Err(core::fmt::Error);
        }
        Ok(())
    }
}

/// A user Display writing `n` pieces (`k` bytes each, symbolic ASCII): result is the concatenation;
/// with `fail` the impl reports an error after a solver-chosen number of pieces -> Err(Fmt).
pub fn display_pieces(n: usize, k: usize, fail: bool) {
    let d = Pieces {
        p: [any_str(k, false), any_str(k, false), any_str(k, false)],
        n,
        fail_after: if fail {
            let f: usize = kani::any();
            kani::assume(f <= n);
            f
        } else {
            99
        },
    };
    let r = d.try_to_lean_string();
    if fail {
        match r {
            Err(lean_string::ToLeanStringError::Fmt(_)) => {}
            _ => assert!(false, "[C15] a Display impl that reports an error did not yield Err(Fmt)"),
        }
    } else {
        let mut m = ModelStr::from_bytes_bounded(b"", 3 * k + 1);
        let mut i = 0;
        while i < 3 {
            if i < n {
                m.push_bytes(d.p[i].bytes());
            }
            i += 1;
        }
        match r {
            Ok(t) => {
                check_handle(&t, &m);
                drop(t);
            }
            Err(_) => assert!(false, "[C15] try_to_lean_string failed for a well-behaved Display impl"),
        }
    }
    assert!(shim::live() == 0, "[MEM] leak in to_lean_string");
    kani::cover!(true, "end of harness reached");
}

/// String / &str / LeanString receivers.
pub fn to_ls_strings(fam: u8, n: usize) {
    let txt = make(fam, n);
    let s: &str = unsafe { core::str::from_utf8_unchecked(&txt[..n]) };
    let m = ModelStr::from_bytes_bounded(&txt[..n], n + 1);
    let st = String::from(s);
    let a = st.to_lean_string();
    check_handle(&a, &m);
    let b = a.to_lean_string();
    check_handle(&b, &m);
    if n > 16 {
        assert!(a.as_str().as_ptr() == b.as_str().as_ptr(), "[C15] to_lean_string of a LeanString copied the text");
    }
    let r = st.try_to_lean_string();
    assert!(r.is_ok(), "[C15] try_to_lean_string(String) failed");
    drop(r);
    drop(st);
    drop(a);
    drop(b);
    assert!(shim::live() == 0, "[MEM] leak in to_lean_string");
    kani::cover!(true, "end of harness reached");
}

// ---------------------------------------------------------------------------------------------
// C17: Eq / Ord / Hash / Display depend on the text alone
// ---------------------------------------------------------------------------------------------
/// A multiplication-free hasher (rotate-xor): FNV's 64-bit multiply per symbolic byte stalls the
/// bit-blasting back end.  It is injective enough for the purpose: it folds every byte *and* counts
/// the `write` calls, so a missing 0xff terminator or a different chunking changes the result.
pub struct Fnv(pub u64, pub usize);
impl core::hash::Hasher for Fnv {
    fn finish(&self) -> u64 {
        self.0 ^ ((self.1 as u64) << 56)
    }
    fn write(&mut self, bytes: &[u8]) {
        let mut i = 0;
        while i < bytes.len() {
            self.0 = self.0.rotate_left(7) ^ (bytes[i] as u64) ^ ((i as u64) << 32);
            i += 1;
        }
        self.1 += 1; // number of write calls matters too (str hashing appends a 0xff terminator)
    }
}
fn fnv_of<T: core::hash::Hash + ?Sized>(t: &T) -> u64 {
    use core::hash::Hasher;
    let mut h = Fnv(0xcbf29ce484222325, 0);
    t.hash(&mut h);
    h.finish()
}
pub struct Sink {
    pub buf: [u8; 64],
    pub n: usize,
}
impl core::fmt::Write for Sink {
    fn write_str(&mut self, s: &str) -> core::fmt::Result {
        let b = s.as_bytes();
        let mut i = 0;
        while i < b.len() {
            if self.n < 64 {
                self.buf[self.n] = b[i];
                self.n += 1;
            }
            i += 1;
        }
        Ok(())
    }
}

/// Build the *same* text `txt[..n]` by history `hist`:
/// 0 fresh from(&str)  1 from(longer) then pop/truncate back  2 heap with spare capacity
/// 3 static (second static array)  4 shared heap clone truncated  5 built by pushes into with_capacity(40)
pub static mut STATIC2: [u8; TMAX] = [0; TMAX];
pub fn by_history(hist: u8, txt: &[u8; TMAX], n: usize) -> (LeanString, Option<LeanString>) {
    let s: &str = unsafe { core::str::from_utf8_unchecked(&txt[..n]) };
    match hist {
        0 => (LeanString::from(s), None),
        1 => {
            // longer text with arbitrary stale bytes behind the end, truncated back
            let mut long = *txt;
            let mut i = n;
            while i < n + 6 && i < TMAX {
                let b: u8 = kani::any();
                kani::assume(b < 0x80);
                long[i] = b;
                i += 1;
            }
            let e = if n + 6 < TMAX { n + 6 } else { TMAX };
            let ls: &str = unsafe { core::str::from_utf8_unchecked(&long[..e]) };
            let mut t = LeanString::from(ls);
            t.truncate(n);
            (t, None)
        }
        2 => {
            let mut t = LeanString::with_capacity(40);
            t.push_str(s);
            (t, None)
        }
        3 => unsafe {
            STATIC2 = *txt;
            let st: &'static str = core::str::from_utf8_unchecked(core::slice::from_raw_parts(STATIC2.as_ptr(), n));
            (LeanString::from_static_str(st), None)
        },
        4 => {
            let mut long = *txt;
            let mut i = n;
            while i < 24 {
                long[i] = b'#';
                i += 1;
            }
            let ls: &str = unsafe { core::str::from_utf8_unchecked(&long[..24]) };
            let orig = LeanString::from(ls);
            let mut t = orig.clone();
            t.truncate(n);
            (t, Some(orig))
        }
        _ => {
            let mut t = LeanString::from(s);
            t.reserve(30);
            (t, None)
        }
    }
}

/// Same text, two histories: ==, cmp, hash, Display, Debug(concrete only) agree.
pub fn same_text(fam: u8, n: usize, h1: u8, h2: u8) {
    let txt = make(fam, n);
    let (a, ka) = by_history(h1, &txt, n);
    let (b, kb) = by_history(h2, &txt, n);
    let s: &str = unsafe { core::str::from_utf8_unchecked(&txt[..n]) };
    assert!(a == b && b == a, "[C17] equal texts compare unequal");
    assert!(!(a != b), "[C17] != on equal texts");
    assert!(a.cmp(&b) == core::cmp::Ordering::Equal, "[C17] equal texts do not order Equal");
    assert!(a.partial_cmp(&b) == Some(core::cmp::Ordering::Equal), "[C17] partial_cmp on equal texts");
    assert!(fnv_of(&a) == fnv_of(&b), "[C17] equal texts hash differently");
    assert!(fnv_of(&a) == fnv_of(s), "[C17] hash differs from the str hash (lookup by &str would fail)");
    assert!(a == *s && *s == a && a == s && s == a, "[C17] comparison with str");
    let sa: &str = core::borrow::Borrow::borrow(&a);
    let sr: &str = a.as_ref();
    let sd: &str = &a;
    assert!(sa.as_ptr() == a.as_str().as_ptr() && sa.len() == n, "[C17] Borrow<str>");
    assert!(sr.as_ptr() == a.as_str().as_ptr() && sr.len() == n, "[C17] AsRef<str>");
    assert!(sd.as_ptr() == a.as_str().as_ptr() && sd.len() == n, "[C17] Deref");
    let br: &[u8] = a.as_ref();
    assert!(br.len() == n, "[C17] AsRef<[u8]>");
    use core::fmt::Write;
    let mut k1 = Sink { buf: [0; 64], n: 0 };
    let mut k2 = Sink { buf: [0; 64], n: 0 };
    let r1 = write!(k1, "{}", a);
    let r2 = write!(k2, "{}", b);
    assert!(r1.is_ok() && r2.is_ok(), "[C17] Display failed");
    assert!(k1.n == n && k2.n == n, "[C17] Display printed a different number of bytes than the text");
    let mut i = 0;
    while i < n {
        assert!(k1.buf[i] == txt[i] && k2.buf[i] == txt[i], "[C17] Display output differs from the text");
        i += 1;
    }
    drop(a);
    drop(b);
    drop(ka);
    drop(kb);
    assert!(shim::live() == 0, "[MEM] leak");
    kani::cover!(true, "end of harness reached");
}

/// Two independent symbolic ASCII texts in different representations: ==/cmp agree with str,
/// in both argument orders, against str, &str, String, Cow<str>.
pub fn two_texts(n1: usize, n2: usize, h1: u8, h2: u8, with_owned: bool) {
    let t1 = make(FAM_A, n1);
    let t2 = make(FAM_A, n2);
    let (a, ka) = by_history(h1, &t1, n1);
    let (b, kb) = by_history(h2, &t2, n2);
    let s1: &str = unsafe { core::str::from_utf8_unchecked(&t1[..n1]) };
    let s2: &str = unsafe { core::str::from_utf8_unchecked(&t2[..n2]) };
    // reference results computed on the raw arrays (not through str's impls)
    let mut ord = core::cmp::Ordering::Equal;
    let mut i = 0;
    let lim = if n1 < n2 { n1 } else { n2 };
    while i < lim {
        if ord == core::cmp::Ordering::Equal {
            if t1[i] < t2[i] {
                ord = core::cmp::Ordering::Less;
            } else if t1[i] > t2[i] {
                ord = core::cmp::Ordering::Greater;
            }
        }
        i += 1;
    }
    if ord == core::cmp::Ordering::Equal {
        ord = if n1 < n2 { core::cmp::Ordering::Less } else if n1 > n2 { core::cmp::Ordering::Greater } else { ord };
    }
    let eq = ord == core::cmp::Ordering::Equal;
    assert!((a == b) == eq && (b == a) == eq, "[C17] == differs from bytewise equality of the texts");
    assert!(a.cmp(&b) == ord && b.cmp(&a) == ord.reverse(), "[C17] cmp differs from the lexicographic order of the texts");
    assert!((a < b) == (ord == core::cmp::Ordering::Less), "[C17] < differs");
    assert!((a == *s2) == eq && (*s2 == a) == eq, "[C17] LeanString vs str");
    assert!((a == s2) == eq && (s2 == a) == eq, "[C17] LeanString vs &str");
    if eq {
        assert!(fnv_of(&a) == fnv_of(&b), "[C17] equal texts hash differently");
    }
    assert!(fnv_of(&a) == fnv_of(s1), "[C17] hash differs from the str hash");
    if with_owned {
        let st = String::from(s2);
        assert!((a == st) == eq && (st == a) == eq, "[C17] LeanString vs String");
        let cw: Cow<str> = Cow::Borrowed(s2);
        assert!((a == cw) == eq && (cw == a) == eq, "[C17] LeanString vs Cow<str>");
        let co: Cow<str> = Cow::Owned(st);
        assert!((a == co) == eq && (co == a) == eq, "[C17] LeanString vs Cow::Owned");
    }
    kani::cover!(eq, "texts equal");
    kani::cover!(ord == core::cmp::Ordering::Less && n1 > n2, "shorter-is-greater case");
    drop(a);
    drop(b);
    drop(ka);
    drop(kb);
    kani::cover!(true, "end of harness reached");
}

/// Two handles on ONE buffer (heap or static) with different handle-local lengths: == is false,
/// the order is that of a proper prefix, hashes follow the texts.
pub fn shared_prefix(kind: u8, fam: u8, n: usize) {
    let s = build(kind, fam, n, 0, 1, n, SYM, 0, false);
    let a = &s.t;
    let b = s.a.as_ref().unwrap();
    let lb = b.len();
    assert!(a.as_str().as_ptr() == b.as_str().as_ptr() || kind == K_INLINE, "[C17] harness: handles do not share a buffer");
    if lb == n {
        assert!(a == b && a.cmp(b) == core::cmp::Ordering::Equal, "[C17] equal texts on one buffer compare unequal");
    } else {
        assert!(a != b && !(a == b), "[C17] a text equals its own proper prefix");
        assert!(a.cmp(b) == core::cmp::Ordering::Greater && b.cmp(a) == core::cmp::Ordering::Less, "[C17] a text does not order after its own proper prefix");
        assert!(a > b && b < a && a.partial_cmp(b) == Some(core::cmp::Ordering::Greater), "[C17] </> on a text and its proper prefix");
    }
    let sb: &str = b.as_str();
    assert!(fnv_of(b) == fnv_of(sb), "[C17] hash of the shorter handle differs from its str hash");
    kani::cover!(lb < n, "proper prefix");
    kani::cover!(lb == n, "same length");
    epilogue(s, true);
}

/// Debug on concrete text equals str's Debug (escape tables are not made symbolic).
pub fn debug_concrete(h1: u8) {
    let mut txt = [0u8; TMAX];
    let src = "a\"\\\n\té€𝄞";
    let n = src.len();
    let mut i = 0;
    while i < n {
        txt[i] = src.as_bytes()[i];
        i += 1;
    }
    let (a, ka) = by_history(h1, &txt, n);
    use core::fmt::Write;
    let mut k1 = Sink { buf: [0; 64], n: 0 };
    let mut k2 = Sink { buf: [0; 64], n: 0 };
    let r1 = write!(k1, "{:?}", a);
    let r2 = write!(k2, "{:?}", src);
    assert!(r1.is_ok() && r2.is_ok(), "[C17] Debug failed");
    assert!(k1.n == k2.n, "[C17] Debug length differs from str's Debug");
    let mut i = 0;
    while i < 64 {
        if i < k1.n {
            assert!(k1.buf[i] == k2.buf[i], "[C17] Debug output differs from str's Debug");
        }
        i += 1;
    }
    drop(a);
    drop(ka);
    kani::cover!(true, "end of harness reached");
}

// ---------------------------------------------------------------------------------------------
// C20: two words and a free niche
// ---------------------------------------------------------------------------------------------
pub fn layout_consts() {
    assert!(core::mem::size_of::<LeanString>() == 2 * core::mem::size_of::<usize>(), "[C20] size_of::<LeanString>()");
    assert!(core::mem::size_of::<Option<LeanString>>() == 2 * core::mem::size_of::<usize>(), "[C20] size_of::<Option<LeanString>>()");
    assert!(core::mem::align_of::<LeanString>() == core::mem::align_of::<usize>(), "[C20] align_of::<LeanString>()");
    assert!(core::mem::align_of::<Option<LeanString>>() == core::mem::align_of::<usize>(), "[C20] align_of::<Option<LeanString>>()");
    let n: Option<LeanString> = None;
    assert!(n.is_none(), "[C20] None");
    kani::cover!(true, "end of harness reached");
}

/// Full inline string whose 16th byte is the last byte of *any* char: Some(s) is Some, reads back.
pub fn niche_full_inline(w: usize, op: u8) {
    let txt = make_l(16 - w, w);
    let s: &str = unsafe { core::str::from_utf8_unchecked(&txt[..16]) };
    let mut m = ModelStr::from_bytes_bounded(&txt[..16], 24);
    let t = LeanString::from(s);
    assert!(!t.is_heap_allocated(), "[C09] 16 bytes on the heap");
    assert!(t.len() == 16, "[C01] len() of a full inline string");
    let o = Some(t);
    assert!(o.is_some(), "[C20] Some(full inline string) reads as None");
    let mut t = match o {
        Some(t) => t,
        None => LeanString::new(),
    };
    check_handle(&t, &m);
    match op {
        0 => {}
        1 => ops::apply(POP, 0, false, &mut t, &mut m),
        2 => {
            let c = rep_char(1);
            t.push(c.c);
            m.push_bytes(&c.bytes[..c.w]);
        }
        3 => {
            let c = t.clone();
            let oc = Some(c);
            assert!(oc.is_some(), "[C20] Some(clone) reads as None");
            drop(oc);
        }
        _ => ops::apply(CLEAR, 0, false, &mut t, &mut m),
    }
    check_handle(&t, &m);
    drop(t);
    assert!(shim::live() == 0, "[MEM] leak");
    kani::cover!(true, "end of harness reached");
}

// ---------------------------------------------------------------------------------------------
// C02: scenario - a sharer becomes the sole owner and writes in place
// ---------------------------------------------------------------------------------------------
pub fn scenario_sole_owner() {
    let txt = make(FAM_A, 20);
    let s: &str = unsafe { core::str::from_utf8_unchecked(&txt[..20]) };
    let m20 = ModelStr::from_bytes_bounded(&txt[..20], 28);
    let a = LeanString::from(s);
    let mut b = a.clone();
    let c = a.clone();
    let p = a.as_str().as_ptr();
    b.truncate(10); // handle-local while shared
    let mut mb = m20;
    mb.truncate(10);
    check_handle(&a, &m20);
    check_handle(&c, &m20);
    drop(a);
    let third_alive: bool = kani::any();
    let ch = any_char();
    if third_alive {
        // c still reads the buffer: b must copy out, c must not notice
        b.push(ch.c);
        mb.push_bytes(&ch.bytes[..ch.w]);
        check_handle(&b, &mb);
        assert!(b.as_str().as_ptr() != p, "[C02] wrote into a buffer another handle still reads");
        assert!(c.as_str().as_ptr() == p, "[C02] the reader was moved");
        check_handle(&c, &m20);
        drop(c);
        // b is the sole owner of its own buffer now: writes in place
        let q = b.as_str().as_ptr();
        let before = shim::snap();
        b.push('x');
        mb.push_bytes(b"x");
        check_handle(&b, &mb);
        if shim::snap().reqs == before.reqs {
            assert!(b.as_str().as_ptr() == q, "[C02] text moved without a request");
        }
    } else {
        // b becomes the sole owner of the *original* buffer, with a shorter handle-local length
        drop(c);
        let before = shim::snap();
        b.push(ch.c);
        mb.push_bytes(&ch.bytes[..ch.w]);
        check_handle(&b, &mb);
        assert!(shim::snap().reqs == before.reqs && b.as_str().as_ptr() == p, "[C11] sole owner with room did not write in place");
        assert!(shim::live() == 1, "[MEM] live blocks");
    }
    drop(b);
    assert!(shim::live() == 0, "[MEM] leak");
    kani::cover!(third_alive, "copied out while a third clone read");
    kani::cover!(!third_alive, "sole owner wrote in place");
    kani::cover!(true, "end of harness reached");
}

/// bool.to_lean_string() for one concrete value (the generic dispatch keeps every arm live for the
/// solver; symbolic receivers of non-integer types do not finish).
pub fn bool_to_ls_concrete(bo: bool) {
    let v = bo.to_lean_string();
    if bo {
        expect_bytes(&v, b"true\0", 4);
    } else {
        expect_bytes(&v, b"false", 5);
    }
    kani::cover!(true, "end of harness reached");
}
pub fn char_to_ls_concrete(w: usize) {
    let c = rep_char(w);
    let u = c.c.to_lean_string();
    let e = [c.bytes[0], c.bytes[1], c.bytes[2], c.bytes[3], 0];
    expect_bytes(&u, &e, c.w);
    kani::cover!(true, "end of harness reached");
}
