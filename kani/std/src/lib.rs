#![allow(static_mut_refs, unused, clippy::all)]
#![cfg_attr(kani, feature(stmt_expr_attributes))]
extern crate alloc;

pub mod model;
pub mod shim;
pub mod text;
#[cfg(kani)]
pub mod st;
#[cfg(kani)]
pub mod ops;
#[cfg(kani)]
pub mod h;
#[cfg(kani)]
pub mod h2;
#[cfg(kani)]
pub mod h3;
#[cfg(kani)]
mod cases;

/// Declares one Kani proof harness with the allocator stubs applied.
#[macro_export]
macro_rules! harness {
    ($name:ident, $unwind:literal, $body:expr) => {
        #[kani::proof]
        #[kani::unwind($unwind)]
        #[kani::stub(alloc::alloc::alloc, crate::shim::shim_alloc)]
        #[kani::stub(alloc::alloc::dealloc, crate::shim::shim_dealloc)]
        #[kani::stub(alloc::alloc::realloc, crate::shim::shim_realloc)]
        fn $name() {
            $body
        }
    };
}
