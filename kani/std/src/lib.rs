#![allow(static_mut_refs, unused, clippy::all)]
#![cfg_attr(kani, feature(stmt_expr_attributes))]
extern crate alloc;

pub mod model;
#[cfg(not(kani))]
pub mod nk;
pub mod shim;
pub mod text;
// the harness bodies also compile natively (against `nk`, the stand-in for the kani API) so that a
// solver counterexample can be replayed without Kani: plain run, release run and Miri
pub mod st;
pub mod ops;
pub mod h;
pub mod h2;
pub mod h3;
#[cfg(all(kani, feature = "ls_all"))]
pub mod h4;
#[cfg(all(kani, loom))]
pub mod hs;
#[cfg(kani)]
mod cases;

/// Declares one Kani proof harness with the allocator stubs applied.
#[macro_export]
macro_rules! harness {
    ($name:ident, $unwind:literal, $body:expr) => {
        #[kani::proof]
        #[kani::unwind($unwind)]
        #[kani::stub(alloc::alloc::alloc, crate::shim::shim_alloc)]
        #[kani::stub(alloc::alloc::dealloc, crate::shim::shim_dealloc)]
        #[kani::stub(alloc::alloc::realloc, crate::shim::shim_realloc)]
        #[kani::stub(alloc::alloc::dealloc_nonnull, crate::shim::shim_dealloc_nonnull)]
        #[kani::stub(alloc::alloc::realloc_nonnull, crate::shim::shim_realloc_nonnull)]
        fn $name() {
            $body
        }
    };
}

/// Same, plus the type-dispatch stub (see `shim::type_eq_stub`) for harnesses that call
/// `to_lean_string()`.
#[macro_export]
macro_rules! harness_tls {
    ($name:ident, $unwind:literal, $body:expr) => {
        #[kani::proof]
        #[kani::unwind($unwind)]
        #[kani::stub(alloc::alloc::alloc, crate::shim::shim_alloc)]
        #[kani::stub(alloc::alloc::dealloc, crate::shim::shim_dealloc)]
        #[kani::stub(alloc::alloc::realloc, crate::shim::shim_realloc)]
        #[kani::stub(alloc::alloc::dealloc_nonnull, crate::shim::shim_dealloc_nonnull)]
        #[kani::stub(alloc::alloc::realloc_nonnull, crate::shim::shim_realloc_nonnull)]
        #[kani::stub(castaway::utils::type_eq_non_static, crate::shim::type_eq_stub)]
        fn $name() {
            $body
        }
    };
}


/// Seam configuration: allocator stubs plus the scheduler hook of the atomics shim.
#[macro_export]
macro_rules! harness_seam {
    ($name:ident, $unwind:literal, $body:expr) => {
        #[kani::proof]
        #[kani::unwind($unwind)]
        #[kani::stub(alloc::alloc::alloc, crate::shim::shim_alloc)]
        #[kani::stub(alloc::alloc::dealloc, crate::shim::shim_dealloc)]
        #[kani::stub(alloc::alloc::realloc, crate::shim::shim_realloc)]
        #[kani::stub(alloc::alloc::dealloc_nonnull, crate::shim::shim_dealloc_nonnull)]
        #[kani::stub(alloc::alloc::realloc_nonnull, crate::shim::shim_realloc_nonnull)]
        #[kani::stub(loom::sched::hook, crate::hs::ls_seam_hook)]
        fn $name() {
            $body
        }
    };
}
