//! Harness bodies, part 3: integer dispatch (C14), UTF-8/UTF-16 constructors (C16).

#[cfg(not(kani))]
use crate::nk as kani;
use crate::model::{self, ModelStr, MCAP};
use crate::ops::{self, *};
use crate::shim;
use crate::st::{self, *};
use crate::text::{self, *};
use core::num::NonZero;
use lean_string::{LeanString, ToLeanString};

/// Loop-free comparison of a short text with the canonical decimal of a small value
/// (|v| <= 999): keeps the harness free of loops so that a tiny unwind bound suffices for the
/// formatter's own `while n >= 10000` loop (64-bit division by constants is costly per unrolling).
fn expect_small_decimal(s: &LeanString, v: i32) {
    let neg = v < 0;
    let a = if neg { -v } else { v } as u32;
    let nd = if a >= 100 { 3 } else if a >= 10 { 2 } else { 1 };
    let len = nd + if neg { 1 } else { 0 };
    assert!(s.len() == len, "[C14] length differs from the canonical decimal");
    let b = s.as_bytes();
    assert!(b.len() == len, "[C14] as_bytes().len() differs from the canonical decimal");
    let mut at = 0;
    if neg {
        assert!(b[0] == b'-', "[C14] missing '-'");
        at = 1;
    }
    if nd == 3 {
        assert!(b[at] == b'0' + (a / 100) as u8, "[C14] hundreds digit");
        at += 1;
    }
    if nd >= 2 {
        assert!(b[at] == b'0' + ((a / 10) % 10) as u8, "[C14] tens digit");
        at += 1;
    }
    assert!(b[at] == b'0' + (a % 10) as u8, "[C14] units digit");
    assert!(!s.is_heap_allocated(), "[C09] short integer text is on the heap");
    assert!(s.capacity() == 16, "[C09] short integer text: capacity != 16");
}

macro_rules! dispatch_fn {
    ($name:ident, $t:ty, $lo:expr, $hi:expr) => {
        /// `x.to_lean_string()` reaches the right formatter instance (type dispatch by castaway).
        pub fn $name() {
            let x: $t = kani::any();
            kani::assume(x >= $lo && x <= $hi);
            let before = shim::snap();
            let s = x.to_lean_string();
            expect_small_decimal(&s, x as i32);
            assert!(shim::snap().reqs == before.reqs, "[C09] short integer text touched the heap");
            kani::cover!(x as i32 == $hi as i32, "upper end reached");
            kani::cover!(true, "end of harness reached");
        }
    };
}
macro_rules! dispatch_nz_fn {
    ($name:ident, $t:ty, $lo:expr, $hi:expr) => {
        pub fn $name() {
            let x: $t = kani::any();
            kani::assume(x >= $lo && x <= $hi && x != 0);
            let nz = NonZero::new(x).unwrap();
            let before = shim::snap();
            let s = nz.to_lean_string();
            expect_small_decimal(&s, x as i32);
            assert!(shim::snap().reqs == before.reqs, "[C09] short integer text touched the heap");
            kani::cover!(x as i32 == $hi as i32, "upper end reached");
            kani::cover!(true, "end of harness reached");
        }
    };
}
dispatch_fn!(disp_i8_full, i8, i8::MIN, i8::MAX);
dispatch_fn!(disp_u8_full, u8, 0, u8::MAX);
dispatch_fn!(disp_i8, i8, -99, 99);
dispatch_fn!(disp_u8, u8, 0, 99);
dispatch_fn!(disp_i16, i16, -99, 99);
dispatch_fn!(disp_u16, u16, 0, 99);
dispatch_fn!(disp_i32, i32, -99, 99);
dispatch_fn!(disp_u32, u32, 0, 99);
dispatch_fn!(disp_i64, i64, -99, 99);
dispatch_fn!(disp_u64, u64, 0, 99);
dispatch_fn!(disp_isize, isize, -99, 99);
dispatch_fn!(disp_usize, usize, 0, 99);
dispatch_fn!(disp_i128, i128, -99, 99);
dispatch_fn!(disp_u128, u128, 0, 99);
dispatch_fn!(disp_i16_3, i16, -999, 999);
dispatch_fn!(disp_u16_3, u16, 0, 999);
dispatch_nz_fn!(disp_nz_i8, i8, -99, 99);
dispatch_nz_fn!(disp_nz_u8, u8, 0, 99);
dispatch_nz_fn!(disp_nz_i16, i16, -99, 99);
dispatch_nz_fn!(disp_nz_u16, u16, 0, 99);
dispatch_nz_fn!(disp_nz_i32, i32, -99, 99);
dispatch_nz_fn!(disp_nz_u32, u32, 0, 99);
dispatch_nz_fn!(disp_nz_i64, i64, -99, 99);
dispatch_nz_fn!(disp_nz_u64, u64, 0, 99);
dispatch_nz_fn!(disp_nz_isize, isize, -99, 99);
dispatch_nz_fn!(disp_nz_usize, usize, 0, 99);
dispatch_nz_fn!(disp_nz_i128, i128, -99, 99);
dispatch_nz_fn!(disp_nz_u128, u128, 0, 99);

/// Concrete boundary values through the real plumbing end to end (with_capacity/as_slice_mut/
/// set_len executed for real, incl. the 17..20 digit heap cases) - cross-check of the E2 summaries.
pub fn num_concrete_boundaries() {
    fn expect(s: LeanString, want: &str, heap: bool) {
        assert!(s.len() == want.len(), "[C14] length of a formatted integer");
        let b = s.as_bytes();
        let w = want.as_bytes();
        let mut i = 0;
        while i < w.len() {
            assert!(b[i] == w[i], "[C14] text of a formatted integer");
            i += 1;
        }
        assert!(s.is_heap_allocated() == heap, "[C09] storage of a formatted integer");
        if heap {
            assert!(s.capacity() == want.len(), "[C09] capacity of a formatted integer != its length");
        }
    }
    expect(u64::MAX.to_lean_string(), "18446744073709551615", true);
    expect(i64::MIN.to_lean_string(), "-9223372036854775808", true);
    expect(9999999999999999u64.to_lean_string(), "9999999999999999", false);
    expect(10000000000000000u64.to_lean_string(), "10000000000000000", true);
    expect((-999999999999999i64).to_lean_string(), "-999999999999999", false);
    expect((-1000000000000000i64).to_lean_string(), "-1000000000000000", true);
    expect(usize::MAX.to_lean_string(), "18446744073709551615", true);
    expect(isize::MIN.to_lean_string(), "-9223372036854775808", true);
    expect(u32::MAX.to_lean_string(), "4294967295", false);
    expect(i32::MIN.to_lean_string(), "-2147483648", false);
    expect(u16::MAX.to_lean_string(), "65535", false);
    expect(i16::MIN.to_lean_string(), "-32768", false);
    expect(0u64.to_lean_string(), "0", false);
    expect(u128::MAX.to_lean_string(), "340282366920938463463374607431768211455", true);
    expect(i128::MIN.to_lean_string(), "-170141183460469231731687303715884105728", true);
    assert!(shim::live() == 0, "[MEM] leak");
    kani::cover!(true, "end of harness reached");
}

// ---------------------------------------------------------------------------------------------
// C16: UTF-8 / UTF-16 constructors
// ---------------------------------------------------------------------------------------------
/// Concrete valid prefix of `p` bytes (template, cut at a boundary and ASCII padded) followed by a
/// window of `w <= 3` fully symbolic bytes.
fn utf8_input(p: usize, w: usize) -> ([u8; TMAX], usize) {
    let mut buf = make(FAM_T, p);
    let mut i = 0;
    while i < w {
        buf[p + i] = kani::any();
        i += 1;
    }
    (buf, p + w)
}

/// from_utf8 accepts exactly well-formed input (judged by the independent validity predicate
/// `model::valid_utf8`, itself validated natively against std) and yields the same text.
pub fn utf8_strict(p: usize, w: usize) {
    let (buf, n) = utf8_input(p, w);
    let window_ok = model::valid_utf8(&buf[p..n]);
    let r = LeanString::from_utf8(&buf[..n]);
    match &r {
        Ok(t) => {
            assert!(window_ok, "[C16] from_utf8 accepted ill-formed UTF-8");
            let m = ModelStr::from_bytes_bounded(&buf[..n], n + 1);
            check_handle(t, &m);
        }
        Err(a) => {
            assert!(!window_ok, "[C16] from_utf8 rejected well-formed UTF-8");
            // std reports how many leading bytes are valid: at least the concrete (valid) prefix
            assert!(a.valid_up_to() >= p && a.valid_up_to() < n, "[C16] from_utf8 error position outside the symbolic window");
        }
    }
    kani::cover!(r.is_ok() && w > 0, "accepted");
    kani::cover!(r.is_err(), "rejected");
    drop(r);
    assert!(shim::live() == 0, "[MEM] leak");
    kani::cover!(true, "end of harness reached");
}

/// from_utf8_lossy: concrete context of `p` bytes, ONE symbolic byte at position `at`, then the
/// rest of the concrete context up to `n` bytes; compared with std's utf8_chunks accumulated into
/// the model (U+FFFD per invalid chunk).
pub fn utf8_lossy(n: usize, at: usize, two: bool) {
    let mut buf = make(FAM_T, n);
    buf[at] = kani::any();
    if two && at + 1 < n {
        buf[at + 1] = kani::any();
    }
    let t = LeanString::from_utf8_lossy(&buf[..n]);
    let mut m = ModelStr::from_bytes_bounded(b"", MCAP);
    for chunk in buf[..n].utf8_chunks() {
        let v = chunk.valid().as_bytes();
        let mut i = 0;
        while i < v.len() {
            m.buf[m.len] = v[i];
            m.len += 1;
            i += 1;
        }
        if !chunk.invalid().is_empty() {
            m.push_bytes(&[0xEF, 0xBF, 0xBD]);
        }
    }
    assert!(t.len() == m.len, "[C16] from_utf8_lossy length differs from String::from_utf8_lossy");
    let b = t.as_bytes();
    let mut i = 0;
    while i < MCAP {
        if i < m.len {
            assert!(b[i] == m.buf[i], "[C16] from_utf8_lossy text differs from String::from_utf8_lossy");
        }
        i += 1;
    }
    kani::cover!(m.len > n, "replacement characters outgrew the input length");
    kani::cover!(m.len == n, "no replacement");
    drop(t);
    assert!(shim::live() == 0, "[MEM] leak");
    kani::cover!(true, "end of harness reached");
}

/// from_utf16 / from_utf16_lossy: `n` concrete units (ASCII and one surrogate pair) with ONE
/// symbolic unit at `at`.
pub fn utf16_one(n: usize, at: usize, lossy: bool, pair_first: bool) {
    let mut u = [0u16; 24];
    let mut i = 0;
    while i < n && i < 24 {
        u[i] = b'a' as u16 + (i % 26) as u16;
        i += 1;
    }
    if pair_first && n >= 3 {
        u[0] = 0xD834; // 𝄞 = D834 DD1E
        u[1] = 0xDD1E;
    } else if n >= 4 {
        u[1] = 0xD834;
        u[2] = 0xDD1E;
    }
    u[at] = kani::any();
    // expected, through std's decoder into the model
    let mut m = ModelStr::from_bytes_bounded(b"", MCAP);
    let mut bad = false;
    for c in char::decode_utf16(u[..n].iter().copied()) {
        match c {
            Ok(c) => {
                let (bytes, w) = model::encode(c as u32);
                m.push_bytes(&bytes[..w]);
            }
            Err(_) => {
                bad = true;
                m.push_bytes(&[0xEF, 0xBF, 0xBD]);
            }
        }
    }
    if lossy {
        let t = LeanString::from_utf16_lossy(&u[..n]);
        check_handle(&t, &m);
        drop(t);
    } else {
        let r = LeanString::from_utf16(&u[..n]);
        match r {
            Ok(t) => {
                assert!(!bad, "[C16] from_utf16 accepted an invalid sequence");
                check_handle(&t, &m);
                drop(t);
            }
            Err(_) => assert!(bad, "[C16] from_utf16 rejected a valid sequence"),
        }
    }
    kani::cover!(bad, "invalid unit");
    kani::cover!(!bad, "valid sequence");
    assert!(shim::live() == 0, "[MEM] leak");
    kani::cover!(true, "end of harness reached");
}


/// Concrete boundary sequences (every surrogate boundary in first and second position, the literal
/// U+FFFD unit next to a pair): acceptance and text as std's decoder.  Literal inputs - the symbolic
/// unit of `utf16_one` can only be the last one.
pub fn utf16_boundaries(k: usize) {
    const T: [[u16; 3]; 12] = [
        [0xD800, 0xDC00, 0x41], [0xDBFF, 0xDFFF, 0x41], [0xDBFF, 0xDC00, 0xFFFD], [0xD800, 0xDFFF, 0xFFFD],
        [0xDC00, 0xD800, 0x41], [0xDFFF, 0x41, 0x42], [0xD800, 0x41, 0x42], [0xDBFF, 0xDBFF, 0xDC00],
        [0xFFFD, 0xD834, 0xDD1E], [0xD834, 0xDD1E, 0xFFFD], [0xD7FF, 0xE000, 0xFFFF], [0x41, 0xDBFF, 0xDFFF],
    ];
    let u = T[k];
    let mut m = ModelStr::from_bytes_bounded(b"", 16);
    let mut bad = false;
    for c in char::decode_utf16(u.iter().copied()) {
        match c {
            Ok(c) => {
                let (bytes, w) = model::encode(c as u32);
                m.push_bytes(&bytes[..w]);
            }
            Err(_) => {
                bad = true;
                m.push_bytes(&[0xEF, 0xBF, 0xBD]);
            }
        }
    }
    let l = LeanString::from_utf16_lossy(&u);
    check_handle(&l, &m);
    drop(l);
    match LeanString::from_utf16(&u) {
        Ok(t) => {
            assert!(!bad, "[C16] from_utf16 accepted an invalid sequence");
            check_handle(&t, &m);
        }
        Err(_) => assert!(bad, "[C16] from_utf16 rejected a valid sequence"),
    }
    assert!(shim::live() == 0, "[MEM] leak");
    kani::cover!(true, "end of harness reached");
}
