//! C04: thread-safety harnesses over the crate's own `cfg(loom)` seam.
//!
//! Thread 1 runs its operations on handle `A`; every atomic operation it executes is bracketed by
//! yield points of the shim (`loom::sched`).  At each yield point the scheduler below - driven by
//! the solver - may run the next scripted operations of thread 2 (and thread 3) on *their* handles
//! of the same buffer, to completion.  For every such schedule: no CBMC memory check fails, every
//! thread's handle holds what its own operations produce sequentially, and after all handles are
//! dropped nothing is allocated.

use crate::model::{self, ModelStr, MCAP};
use crate::shim;
use crate::st::{self, *};
use crate::text::{self, *};
use lean_string::LeanString;
use loom::sched;

pub const TEXT: &[u8; 20] = b"abcdefghijklmnopqrst";

pub struct Thr {
    pub h: Option<LeanString>,
    pub aux: Option<LeanString>,
    pub m: ModelStr,
    pub script: [u8; 2],
    pub len: usize,
    pub next: usize,
    pub done0: bool,
    pub done1: bool,
}
const fn thr() -> Thr {
    Thr { h: None, aux: None, m: ModelStr::new(), script: [0; 2], len: 0, next: 0, done0: false, done1: false }
}
pub static mut T2: Thr = thr();
pub static mut T3: Thr = thr();
/// thread 1's handle, visible to the other threads only for `&self` operations (Sync)
pub static mut A_SHARED: *const LeanString = core::ptr::null();
/// The other threads may be scheduled at yield points number WIN_LO..WIN_HI of thread 1 (the
/// generator enumerates the windows so that together they cover every yield point; inside a window
/// the solver decides).  Forking at *every* yield point of an operation in one query does not finish.
pub static mut WIN_LO: usize = 0;
pub static mut WIN_HI: usize = usize::MAX;
pub static mut YIELD_NO: usize = 0;
/// forced schedule: inside the window the pending operation runs unconditionally (used with a
/// window of one yield point for other-thread operations that allocate, where a solver-chosen
/// position makes the allocator bookkeeping symbolic and does not finish)
pub static mut FORCE: bool = false;

pub const O_NONE: u8 = 0;
pub const O_DROP: u8 = 1;
pub const O_CLONE_DROP: u8 = 2;
pub const O_READ: u8 = 3;
pub const O_PUSH: u8 = 4;
pub const O_TRUNCATE: u8 = 5;
pub const O_CLEAR: u8 = 6;
pub const O_RESERVE: u8 = 7;
pub const O_SHRINK: u8 = 8;
pub const O_REMOVE: u8 = 9;
pub const O_CLONE_KEEP: u8 = 10;
pub const O_CLONE_FROM: u8 = 11;
pub const O_CLONE_A: u8 = 12; // clone thread 1's handle through a shared reference
pub const O_INSERT: u8 = 13;
pub const O_RETAIN: u8 = 14;
pub const O_PUSH_STR: u8 = 15;
pub const O_POP: u8 = 16;

/// One operation with fixed arguments on (handle, model); `None` handle = already dropped.
pub fn run_op(op: u8, h: &mut Option<LeanString>, aux: &mut Option<LeanString>, m: &mut ModelStr) {
    if op == O_CLONE_A {
        unsafe {
            if !A_SHARED.is_null() {
                let c = (*A_SHARED).clone();
                // whatever thread 1 holds right now, the clone is a valid string of that buffer
                let _ = c.len();
                drop(c);
            }
        }
        return;
    }
    let t = match h {
        Some(t) => t,
        None => return,
    };
    match op {
        O_DROP => {
            *h = None;
        }
        O_CLONE_DROP => {
            let c = t.clone();
            check_handle(&c, m);
            drop(c);
        }
        O_READ => check_handle(t, m),
        O_PUSH => {
            t.push('y');
            m.push_bytes(b"y");
        }
        O_PUSH_STR => {
            t.push_str("uvw");
            m.push_bytes(b"uvw");
        }
        O_POP => {
            let r = t.pop();
            let e = m.pop();
            assert!(r.map(|c| c as u32) == e, "[C04] pop returned a different char than the sequential model");
        }
        O_TRUNCATE => {
            t.truncate(3);
            m.truncate(3);
        }
        O_CLEAR => {
            t.clear();
            m.clear();
        }
        O_RESERVE => t.reserve(30),
        O_SHRINK => t.shrink_to(0),
        O_REMOVE => {
            if m.len > 0 {
                let c = t.remove(0);
                let x = m.remove(0);
                assert!(c as u32 == x, "[C04] remove returned a different char than the sequential model");
            }
        }
        O_INSERT => {
            if m.len >= 1 {
                t.insert(1, 'q');
                m.insert_bytes(1, b"q");
            }
        }
        O_RETAIN => {
            let mut i = 0;
            t.retain(|_| {
                i += 1;
                i % 2 == 1
            });
            let mut keep = [false; MCAP];
            let mut q = 0;
            while q < m.bound {
                keep[q] = q % 2 == 0;
                q += 1;
            }
            m.retain(&keep);
        }
        O_CLONE_KEEP => {
            *aux = Some(t.clone());
        }
        O_CLONE_FROM => {
            let src = LeanString::from("0123456789abcdefghij");
            t.clone_from(&src);
            let b = m.bound;
            *m = ModelStr::from_bytes_bounded(b"0123456789abcdefghij", b);
            drop(src);
        }
        _ => {}
    }
}

/// Script positions are addressed by literal index (with a "done" flag each) so that the operation
/// code stays a literal for the solver even after a symbolic scheduling decision.
fn run_thread(t: &mut Thr) {
    if t.len >= 1 && !t.done0 {
        let go: bool = if unsafe { FORCE } { true } else { kani::any() };
        if go {
            t.done0 = true;
            t.next = 1;
            let op = t.script[0];
            let Thr { h, aux, m, .. } = t;
            run_op(op, h, aux, m);
        }
    }
    if t.len >= 2 && t.done0 && !t.done1 {
        let go: bool = if unsafe { FORCE } { true } else { kani::any() };
        if go {
            t.done1 = true;
            t.next = 2;
            let op = t.script[1];
            let Thr { h, aux, m, .. } = t;
            run_op(op, h, aux, m);
        }
    }
}

/// The scheduler hook: at this yield point the solver may run pending operations of the other threads.
pub fn ls_seam_hook() {
    unsafe {
        let k = YIELD_NO;
        YIELD_NO += 1;
        if k < WIN_LO || k >= WIN_HI {
            return;
        }
        run_thread(&mut T2);
        if T3.len > 0 {
            run_thread(&mut T3);
        }
    }
}

fn finish_thread(t: &mut Thr) {
    if t.len >= 1 && !t.done0 {
        t.done0 = true;
        let op = t.script[0];
        let Thr { h, aux, m, .. } = t;
        run_op(op, h, aux, m);
    }
    if t.len >= 2 && !t.done1 {
        t.done1 = true;
        let op = t.script[1];
        let Thr { h, aux, m, .. } = t;
        run_op(op, h, aux, m);
    }
    t.next = t.len;
}

/// 2 (or 3) threads on one shared 20-byte heap buffer.  `shared_ref`: thread 1's operations are
/// `&self` operations and its handle is also visible to thread 2 by reference.
pub fn seam(op1: u8, op1b: u8, s0: u8, s1: u8, u0: u8, u1: u8, three: bool, shared_ref: bool, len1: usize, win_lo: usize, win_hi: usize, force: bool) {
    unsafe {
        FORCE = force;
        WIN_LO = win_lo;
        WIN_HI = win_hi;
        YIELD_NO = 0;
    }
    let s: &str = unsafe { core::str::from_utf8_unchecked(&TEXT[..]) };
    let m0 = ModelStr::from_bytes_bounded(&TEXT[..], 28);
    let mut a = Some(LeanString::from(s));
    let mut aux1: Option<LeanString> = None;
    let mut m1 = m0;
    unsafe {
        T2.h = Some(a.as_ref().unwrap().clone());
        T2.m = m0;
        T2.script = [s0, s1];
        T2.len = if s1 != O_NONE { 2 } else if s0 != O_NONE { 1 } else { 0 };
        T2.next = 0;
        T2.done0 = false;
        T2.done1 = false;
        if three {
            T3.h = Some(a.as_ref().unwrap().clone());
            T3.m = m0;
            T3.script = [u0, u1];
            T3.len = if u1 != O_NONE { 2 } else if u0 != O_NONE { 1 } else { 0 };
            T3.next = 0;
            T3.done0 = false;
            T3.done1 = false;
        }
        if len1 < 20 {
            // thread 1's handle carries a shorter handle-local length
            a.as_mut().unwrap().truncate(len1);
            m1.truncate(len1);
        }
        if shared_ref {
            A_SHARED = a.as_ref().unwrap() as *const LeanString;
        }
        // from here on every atomic operation of thread 1 is a scheduling point
        sched::ENABLED = true;
    }
    run_op(op1, &mut a, &mut aux1, &mut m1);
    sched::yield_point();
    if op1b != O_NONE {
        run_op(op1b, &mut a, &mut aux1, &mut m1);
    }
    unsafe {
        sched::ENABLED = false;
        A_SHARED = core::ptr::null();
        // the other threads run to the end of their scripts
        finish_thread(&mut T2);
        finish_thread(&mut T3);
        kani::cover!(T2.next == T2.len, "thread 2 finished its script");
        kani::cover!(YIELD_NO > WIN_LO, "thread 1 reached the scheduling window");
        // every thread reads back what its own operations produce sequentially
        if let Some(h) = &a {
            check_handle(h, &m1);
        }
        if let Some(h) = &T2.h {
            check_handle(h, &T2.m);
        }
        if let Some(h) = &T3.h {
            check_handle(h, &T3.m);
        }
        // release everything, one handle at a time
        a = None;
        aux1 = None;
        if let Some(h) = &T2.h {
            check_handle(h, &T2.m);
        }
        T2.h = None;
        T2.aux = None;
        if let Some(h) = &T3.h {
            check_handle(h, &T3.m);
        }
        T3.h = None;
        T3.aux = None;
    }
    assert!(shim::live() == 0, "[C04] a buffer is still allocated after every thread dropped its handles");
    kani::cover!(true, "end of harness reached");
}
