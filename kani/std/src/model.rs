//! `ModelStr`: an array implementation of the `String` semantics used as the oracle inside the
//! solver.  It is validated natively against `std::string::String` on every run (`cargo test`,
//! see `tests/model_vs_string.rs`); a disagreement there makes the run inconclusive.
//!
//! All loops are bounded by the constant `MCAP` so that CBMC needs no data-dependent unwinding.

pub const MCAP: usize = 40;

#[derive(Clone, Copy)]
pub struct ModelStr {
    pub buf: [u8; MCAP],
    pub len: usize,
    /// literal upper bound on `len` over the whole harness (keeps every model loop short and
    /// exactly unwound); `len <= bound <= MCAP`
    pub bound: usize,
}

/// Width of the UTF-8 sequence introduced by lead byte `b` (valid text only).
#[inline]
pub fn width_of_lead(b: u8) -> usize {
    if b < 0x80 {
        1
    } else if b < 0xE0 {
        2
    } else if b < 0xF0 {
        3
    } else {
        4
    }
}

#[inline]
pub fn is_cont(b: u8) -> bool {
    (b & 0xC0) == 0x80
}

/// Decode one scalar value from valid UTF-8 at `b[0..w]`.
#[inline]
pub fn decode(b: &[u8; 4], w: usize) -> u32 {
    match w {
        1 => b[0] as u32,
        2 => ((b[0] as u32 & 0x1F) << 6) | (b[1] as u32 & 0x3F),
        3 => ((b[0] as u32 & 0x0F) << 12) | ((b[1] as u32 & 0x3F) << 6) | (b[2] as u32 & 0x3F),
        _ => {
            ((b[0] as u32 & 0x07) << 18)
                | ((b[1] as u32 & 0x3F) << 12)
                | ((b[2] as u32 & 0x3F) << 6)
                | (b[3] as u32 & 0x3F)
        }
    }
}

/// Encode a scalar value; returns (bytes, width).  Mirrors the definition of UTF-8, not std's code.
#[inline]
pub fn encode(c: u32) -> ([u8; 4], usize) {
    if c < 0x80 {
        ([c as u8, 0, 0, 0], 1)
    } else if c < 0x800 {
        ([0xC0 | (c >> 6) as u8, 0x80 | (c & 0x3F) as u8, 0, 0], 2)
    } else if c < 0x10000 {
        ([0xE0 | (c >> 12) as u8, 0x80 | ((c >> 6) & 0x3F) as u8, 0x80 | (c & 0x3F) as u8, 0], 3)
    } else {
        (
            [
                0xF0 | (c >> 18) as u8,
                0x80 | ((c >> 12) & 0x3F) as u8,
                0x80 | ((c >> 6) & 0x3F) as u8,
                0x80 | (c & 0x3F) as u8,
            ],
            4,
        )
    }
}

impl ModelStr {
    pub const fn new() -> Self {
        ModelStr { buf: [0; MCAP], len: 0, bound: MCAP }
    }

    pub fn from_bytes(b: &[u8]) -> Self {
        Self::from_bytes_bounded(b, MCAP)
    }

    pub fn from_bytes_bounded(b: &[u8], bound: usize) -> Self {
        let mut m = ModelStr::new();
        m.bound = bound;
        let n = b.len();
        let mut i = 0;
        while i < bound {
            if i < n {
                m.buf[i] = b[i];
            }
            i += 1;
        }
        m.len = n;
        m
    }

    #[inline]
    pub fn at(&self, i: usize) -> u8 {
        self.buf[i]
    }

    /// `str::is_char_boundary`
    pub fn is_char_boundary(&self, idx: usize) -> bool {
        if idx == 0 || idx == self.len {
            true
        } else if idx > self.len {
            false
        } else {
            !is_cont(self.buf[idx])
        }
    }

    /// Fits into the model at all?  (harness bound, not a String precondition)
    pub fn fits(&self, extra: usize) -> bool {
        self.len + extra <= MCAP
    }

    pub fn push_bytes(&mut self, s: &[u8]) {
        let n = s.len();
        let l = self.len;
        let mut i = 0;
        while i < 8 {
            // callers push at most 8 bytes at a time
            if i < n {
                self.buf[l + i] = s[i];
            }
            i += 1;
        }
        self.len = l + n;
    }

    /// `String::insert_str` panics iff `!is_char_boundary(idx)`.
    pub fn insert_panics(&self, idx: usize) -> bool {
        !self.is_char_boundary(idx)
    }

    pub fn insert_bytes(&mut self, idx: usize, s: &[u8]) {
        let n = s.len();
        let l = self.len;
        // shift the tail right by n (from the back)
        let mut k = self.bound;
        while k > 0 {
            k -= 1;
            if k >= idx + n && k < l + n {
                self.buf[k] = self.buf[k - n];
            }
        }
        let mut i = 0;
        while i < 8 {
            if i < n {
                self.buf[idx + i] = s[i];
            }
            i += 1;
        }
        self.len = l + n;
    }

    /// `String::remove` panics iff `idx >= len` or not a boundary.
    pub fn remove_panics(&self, idx: usize) -> bool {
        idx >= self.len || !self.is_char_boundary(idx)
    }

    /// Removes the char at `idx`; returns its scalar value.
    pub fn remove(&mut self, idx: usize) -> u32 {
        let w = width_of_lead(self.buf[idx]);
        let mut cb = [0u8; 4];
        let mut j = 0;
        while j < 4 {
            if j < w {
                cb[j] = self.buf[idx + j];
            }
            j += 1;
        }
        let c = decode(&cb, w);
        let l = self.len;
        let mut k = 0;
        while k < self.bound {
            if k >= idx && k + w < l {
                self.buf[k] = self.buf[k + w];
            }
            k += 1;
        }
        self.len = l - w;
        c
    }

    /// `String::pop`
    pub fn pop(&mut self) -> Option<u32> {
        if self.len == 0 {
            return None;
        }
        let l = self.len;
        let mut start = l - 1;
        // walk back over at most 3 continuation bytes
        let mut k = 0;
        while k < 3 {
            if start > 0 && is_cont(self.buf[start]) {
                start -= 1;
            }
            k += 1;
        }
        let w = l - start;
        let mut cb = [0u8; 4];
        let mut j = 0;
        while j < 4 {
            if j < w {
                cb[j] = self.buf[start + j];
            }
            j += 1;
        }
        self.len = start;
        Some(decode(&cb, w))
    }

    /// `String::truncate` panics iff `new_len < len` and not a boundary.
    pub fn truncate_panics(&self, new_len: usize) -> bool {
        new_len < self.len && !self.is_char_boundary(new_len)
    }

    pub fn truncate(&mut self, new_len: usize) {
        if new_len < self.len {
            self.len = new_len;
        }
    }

    pub fn clear(&mut self) {
        self.len = 0;
    }

    /// `String::retain` with the predicate "keep the k-th char iff keep[k]".
    /// Returns the number of chars visited.
    pub fn retain(&mut self, keep: &[bool; MCAP]) -> usize {
        let l = self.len;
        let mut src = 0;
        let mut dst = 0;
        let mut k = 0;
        let mut it = 0;
        while it < self.bound {
            if src < l {
                let w = width_of_lead(self.buf[src]);
                if keep[k] {
                    let mut j = 0;
                    while j < 4 {
                        if j < w {
                            self.buf[dst + j] = self.buf[src + j];
                        }
                        j += 1;
                    }
                    dst += w;
                }
                src += w;
                k += 1;
            }
            it += 1;
        }
        self.len = dst;
        k
    }

    /// Bytewise equality with a slice (bounded loop, fieldwise – avoids memcmp unwinding).
    pub fn eq_bytes(&self, b: &[u8]) -> bool {
        if b.len() != self.len {
            return false;
        }
        let mut ok = true;
        let mut i = 0;
        while i < self.bound {
            if i < self.len && b[i] != self.buf[i] {
                ok = false;
            }
            i += 1;
        }
        ok
    }

    pub fn as_bytes(&self) -> &[u8] {
        &self.buf[..self.len]
    }
}

/// Is `b` well-formed UTF-8?  Written from the definition (Unicode Table 3-7), independent of
/// std's validator; validated natively against `core::str::from_utf8`.
pub fn valid_utf8(b: &[u8]) -> bool {
    let n = b.len();
    let mut i = 0;
    let mut ok = true;
    let mut steps = 0;
    while steps < 8 {
        // callers pass at most 8 bytes
        if ok && i < n {
            let b0 = b[i];
            if b0 < 0x80 {
                i += 1;
            } else if b0 >= 0xC2 && b0 <= 0xDF {
                if i + 1 < n && is_cont(b[i + 1]) {
                    i += 2;
                } else {
                    ok = false;
                }
            } else if b0 >= 0xE0 && b0 <= 0xEF {
                if i + 2 < n {
                    let b1 = b[i + 1];
                    let lo = if b0 == 0xE0 { 0xA0 } else { 0x80 };
                    let hi = if b0 == 0xED { 0x9F } else { 0xBF };
                    if b1 >= lo && b1 <= hi && is_cont(b[i + 2]) {
                        i += 3;
                    } else {
                        ok = false;
                    }
                } else {
                    ok = false;
                }
            } else if b0 >= 0xF0 && b0 <= 0xF4 {
                if i + 3 < n {
                    let b1 = b[i + 1];
                    let lo = if b0 == 0xF0 { 0x90 } else { 0x80 };
                    let hi = if b0 == 0xF4 { 0x8F } else { 0xBF };
                    if b1 >= lo && b1 <= hi && is_cont(b[i + 2]) && is_cont(b[i + 3]) {
                        i += 4;
                    } else {
                        ok = false;
                    }
                } else {
                    ok = false;
                }
            } else {
                ok = false;
            }
        }
        steps += 1;
    }
    ok && i == n
}
