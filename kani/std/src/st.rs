//! Canonical pre-states, the per-handle invariant INV and the drop epilogue.

#[cfg(not(kani))]
use crate::nk as kani;
use crate::model::{ModelStr, MCAP};
use crate::shim;
use crate::text::{self, TMAX};
use lean_string::LeanString;

pub const SYM: usize = usize::MAX;

pub const K_INLINE: u8 = 0;
pub const K_STATIC: u8 = 1;
pub const K_HEAP: u8 = 2;
/// heap buffer whose capacity is <= 16 (shared handle truncated to 2 bytes, then push => cap 3)
pub const K_TINY: u8 = 3;

pub static mut STATIC_TEXT: [u8; TMAX] = [0; TMAX];
pub static mut STATIC_PRISTINE: [u8; TMAX] = [0; TMAX];
pub static mut STATIC_USED: bool = false;
pub static mut STATIC_N: usize = 0;

pub struct St {
    pub t: LeanString,
    pub m: ModelStr,
    pub a: Option<LeanString>,
    pub ma: ModelStr,
    pub b: Option<LeanString>,
    pub mb: ModelStr,
    pub kind: u8,
}

/// Truncate handle+model to `len` (concrete) or to a solver-chosen boundary (`SYM`).
pub fn cut(h: &mut LeanString, m: &mut ModelStr, len: usize) {
    if len == SYM {
        let l: usize = kani::any();
        kani::assume(l <= m.len);
        kani::assume(m.is_char_boundary(l));
        h.truncate(l);
        m.truncate(l);
    } else if len < m.len {
        // concrete: the case generator only emits char boundaries of the family's layout
        // (`text::floor_boundary`), so the handle length stays a literal for the solver.
        h.truncate(len);
        m.truncate(len);
    }
}

/// Build a canonical state.
///
/// * `kind`   storage of the buffer
/// * `fam,n0` text family and constructed length
/// * `cap`    requested capacity for `K_HEAP` (0 => exact: `from(&str)`)
/// * `ns`     number of additional handles sharing the buffer (0..=2)
/// * `len,la,lb` handle-local lengths of target / sharer a / sharer b (`SYM` = solver-chosen)
/// * `tgt_clone` the target is the *clone* and sharer a is the original handle
pub fn build(kind: u8, fam: u8, n0: usize, cap: usize, ns: u8, len: usize, la: usize, lb: usize, tgt_clone: bool) -> St {
    let txt = text::make(fam, n0);
    let fb = |l: usize| if l == SYM { SYM } else { text::floor_boundary(fam, n0, l) };
    let (len, la, lb) = (fb(len), fb(la), fb(lb));
    build_from(kind, &txt, n0, cap, ns, len, la, lb, tgt_clone)
}

pub fn build_from(kind: u8, txt: &[u8; TMAX], n0: usize, cap: usize, ns: u8, len: usize, la: usize, lb: usize, tgt_clone: bool) -> St {
    let s: &str = unsafe { core::str::from_utf8_unchecked(&txt[..n0]) };
    let m0 = ModelStr::from_bytes_bounded(&txt[..n0], if n0 + 8 < MCAP { n0 + 8 } else { MCAP });
    let mut t = match kind {
        K_INLINE => LeanString::from(s),
        K_STATIC => unsafe {
            STATIC_TEXT = *txt;
            STATIC_PRISTINE = *txt;
            STATIC_USED = true;
            STATIC_N = n0;
            let st: &'static str = core::str::from_utf8_unchecked(core::slice::from_raw_parts(STATIC_TEXT.as_ptr(), n0));
            LeanString::from_static_str(st)
        },
        K_HEAP => {
            if cap == 0 {
                LeanString::from(s)
            } else {
                let mut h = LeanString::with_capacity(cap);
                h.push_str(s);
                h
            }
        }
        _ => {
            // K_TINY: text of >= 17 bytes, shared, truncated to 2 bytes then pushed: capacity 3
            let h = LeanString::from(s);
            let mut c = h.clone();
            c.truncate(2);
            c.push('z');
            drop(h);
            c
        }
    };
    let mut m = m0;
    if kind == K_TINY {
        m.truncate(2);
        m.push_bytes(b"z");
    }
    let mut a = None;
    let mut ma = m;
    let mut b = None;
    let mut mb = m;
    if ns >= 1 {
        let mut c = t.clone();
        if tgt_clone {
            core::mem::swap(&mut c, &mut t);
        }
        cut(&mut c, &mut ma, la);
        a = Some(c);
    }
    if ns >= 2 {
        let mut c = t.clone();
        cut(&mut c, &mut mb, lb);
        b = Some(c);
    }
    cut(&mut t, &mut m, len);
    St { t, m, a, ma, b, mb, kind }
}

/// Does `p` point inside the 16 bytes of the handle itself?
pub fn ptr_in_handle(h: &LeanString, p: *const u8) -> bool {
    let base = h as *const LeanString as *const u8;
    // same-object comparison via offsets; for pointers into other objects CBMC compares objects
    let mut r = false;
    let mut i = 0;
    while i < 16 {
        if base.wrapping_add(i) == p {
            r = true;
        }
        i += 1;
    }
    r
}

/// INV for one live handle against its model.
pub fn check_handle(h: &LeanString, m: &ModelStr) {
    let len = h.len();
    assert!(len == m.len, "[INV] len() differs from the String model");
    assert!(h.is_empty() == (m.len == 0), "[INV] is_empty() differs from the String model");
    let b = h.as_bytes();
    assert!(b.len() == m.len, "[INV] as_bytes().len() differs from the String model");
    let mut i = 0;
    while i < m.bound {
        if i < m.len {
            assert!(unsafe { *b.get_unchecked(i) } == m.buf[i], "[INV] text differs from the String model");
        }
        i += 1;
    }
    assert!(h.as_str().len() == m.len, "[INV] as_str().len() differs from the String model");
    let cap = h.capacity();
    assert!(cap >= len, "[INV] capacity() < len()");
    let p = h.as_str().as_ptr();
    if h.is_heap_allocated() {
        assert!(shim::is_live_text_ptr(p), "[INV] heap handle does not point at a live block");
        assert!(shim::block_size_of_text_ptr(p) == cap + 16, "[INV] capacity() disagrees with the size of the block");
    } else if p == h as *const LeanString as *const u8 {
        assert!(cap == 16, "[INV] inline handle with capacity != 16");
        assert!(len <= 16, "[INV] inline handle longer than 16");
    } else {
        // static
        assert!(cap == len, "[INV] static handle: capacity != len");
        unsafe {
            assert!(STATIC_USED, "[INV] handle is neither inline, heap nor a known static text");
            assert!(p == STATIC_TEXT.as_ptr(), "[INV] static handle does not point at the caller's text");
        }
    }
    // the niche: Some(handle) must never read as None
    let o: Option<LeanString> = unsafe { core::ptr::read(h as *const LeanString as *const Option<LeanString>) };
    assert!(o.is_some(), "[INV] Some(s) reads as None (niche collision)");
    core::mem::forget(o);
}

/// The caller's static bytes were never written.
pub fn check_static_pristine() {
    unsafe {
        if STATIC_USED {
            let mut i = 0;
            while i < STATIC_N {
                assert!(STATIC_TEXT[i] == STATIC_PRISTINE[i], "[INV] the caller's static text was modified");
                i += 1;
            }
        }
    }
}

/// Snapshot of a non-target handle, to show an operation on the target did not touch it.
#[derive(Clone, Copy)]
pub struct Seen {
    pub some: bool,
    pub ptr: *const u8,
    pub len: usize,
    pub cap: usize,
}
pub fn see(h: &Option<LeanString>) -> Seen {
    match h {
        Some(h) => Seen { some: true, ptr: h.as_str().as_ptr(), len: h.len(), cap: h.capacity() },
        None => Seen { some: false, ptr: core::ptr::null(), len: 0, cap: 0 },
    }
}
pub fn check_unchanged(h: &Option<LeanString>, m: &ModelStr, before: &Seen) {
    if let Some(h) = h {
        assert!(h.as_str().as_ptr() == before.ptr, "[ISO] a handle that was not the target points elsewhere");
        assert!(h.len() == before.len, "[ISO] a handle that was not the target changed its length");
        assert!(h.capacity() == before.cap, "[ISO] a handle that was not the target changed its capacity");
        check_handle(h, m);
    }
}

/// Number of distinct live heap blocks referenced by the handles must equal the shim's count.
pub fn check_live_blocks(st: &St) {
    let pt = if st.t.is_heap_allocated() { st.t.as_str().as_ptr() } else { core::ptr::null() };
    let pa = match &st.a {
        Some(h) if h.is_heap_allocated() => h.as_str().as_ptr(),
        _ => core::ptr::null(),
    };
    let pb = match &st.b {
        Some(h) if h.is_heap_allocated() => h.as_str().as_ptr(),
        _ => core::ptr::null(),
    };
    let mut n = 0;
    if !pt.is_null() {
        n += 1;
    }
    if !pa.is_null() && pa != pt {
        n += 1;
    }
    if !pb.is_null() && pb != pt && pb != pa {
        n += 1;
    }
    assert!(shim::live() == n, "[MEM] live blocks != distinct heap buffers referenced by live handles");
}

/// All of INV on the whole state.
pub fn check_all(st: &St) {
    check_handle(&st.t, &st.m);
    if let Some(h) = &st.a {
        check_handle(h, &st.ma);
    }
    if let Some(h) = &st.b {
        check_handle(h, &st.mb);
    }
    check_live_blocks(st);
    check_static_pristine();
}

/// Drop the handles one at a time (order chosen by the solver between "target first" and
/// "sharers first"), re-reading the survivors after each drop; at the end nothing is allocated.
/// This is an exact test of "reference count == number of live handles".
pub fn epilogue(st: St, target_first: bool) {
    let St { t, m, a, ma, b, mb, .. } = st;
    if target_first {
        drop(t);
        if let Some(h) = &a {
            check_handle(h, &ma);
        }
        if let Some(h) = &b {
            check_handle(h, &mb);
        }
        drop(a);
        if let Some(h) = &b {
            check_handle(h, &mb);
        }
        drop(b);
    } else {
        drop(b);
        check_handle(&t, &m);
        if let Some(h) = &a {
            check_handle(h, &ma);
        }
        drop(a);
        check_handle(&t, &m);
        drop(t);
    }
    assert!(shim::live() == 0, "[MEM] a block is still allocated after every handle was dropped (leak)");
    check_static_pristine();
    kani::cover!(true, "end of harness reached");
}
