//! One public operation applied to the real `LeanString` and to the `ModelStr` oracle with
//! solver-chosen arguments.  Return values are compared inside; the caller checks INV afterwards.

#[cfg(not(kani))]
use crate::nk as kani;
use crate::model::{self, ModelStr, MCAP};
use crate::shim;
use core::fmt::Write;
use lean_string::LeanString;

pub const PUSH: u8 = 0;
pub const PUSH_STR: u8 = 1;
pub const POP: u8 = 2;
pub const REMOVE: u8 = 3;
pub const INSERT: u8 = 4;
pub const INSERT_STR: u8 = 5;
pub const TRUNCATE: u8 = 6;
pub const CLEAR: u8 = 7;
pub const RETAIN: u8 = 8;
pub const RESERVE: u8 = 9;
pub const SHRINK_TO: u8 = 10;
pub const SHRINK_FIT: u8 = 11;
pub const EXTEND_CHAR: u8 = 12;
pub const EXTEND_STR: u8 = 13;
pub const ADD_ASSIGN: u8 = 14;
pub const ADD: u8 = 15;
pub const WRITE: u8 = 16;
pub const CLONE_DROP: u8 = 17; // clone the target, read the clone, drop it
pub const CLONE_FROM_NEW: u8 = 18; // target.clone_from(&fresh 20-byte heap string)
pub const ASSIGN_NEW: u8 = 19; // target = fresh inline string (drop of old value by assignment)

/// A symbolic `char` (any scalar value) together with its model encoding.
pub struct SymChar {
    pub c: char,
    pub bytes: [u8; 4],
    pub w: usize,
}
pub fn any_char() -> SymChar {
    let c: char = kani::any();
    let (bytes, w) = model::encode(c as u32);
    SymChar { c, bytes, w }
}

/// Concrete representative of UTF-8 width `w`.
pub fn rep_char(w: usize) -> SymChar {
    let c = match w {
        1 => 'q',
        2 => 'é',
        3 => '€',
        _ => '𝄞',
    };
    let (bytes, w) = model::encode(c as u32);
    SymChar { c, bytes, w }
}

/// A string argument of `k` bytes (k concrete, <= 8).  `multi` selects a multi-byte piece.
pub struct SymStr {
    pub buf: [u8; 8],
    pub k: usize,
}
pub fn any_str(k: usize, multi: bool) -> SymStr {
    let mut buf = [0u8; 8];
    if multi {
        // concrete piece mixing widths: "é€𝄞" is 2+3+4 = 9 bytes; use prefixes on boundaries
        let piece = "é€x\u{10FFFF}".as_bytes(); // 2,3,1,4 -> boundaries 0,2,5,6,10
        let mut i = 0;
        while i < 8 {
            if i < k {
                buf[i] = piece[i];
            }
            i += 1;
        }
    } else {
        let mut i = 0;
        while i < 8 {
            if i < k {
                let b: u8 = kani::any();
                kani::assume(b < 0x80);
                buf[i] = b;
            }
            i += 1;
        }
    }
    SymStr { buf, k }
}
impl SymStr {
    pub fn as_str(&self) -> &str {
        unsafe { core::str::from_utf8_unchecked(&self.buf[..self.k]) }
    }
    pub fn bytes(&self) -> &[u8] {
        &self.buf[..self.k]
    }
}

/// Upper bound for "harmless" size arguments in functional (C01) harnesses: large enough to
/// exercise growth, small enough that a healthy allocator serves it.
pub const SMALL: usize = 1 << 20;

/// Apply `op` with solver-chosen *valid* arguments (no-panic preconditions are assumed here; the
/// panic side is the subject of C07).  `k`/`multi` parameterise string arguments.
pub fn apply(op: u8, k: usize, multi: bool, t: &mut LeanString, m: &mut ModelStr) {
    match op {
        PUSH => {
            let c = any_char();
            t.push(c.c);
            m.push_bytes(&c.bytes[..c.w]);
        }
        PUSH_STR => {
            let s = any_str(k, multi);
            t.push_str(s.as_str());
            m.push_bytes(s.bytes());
        }
        POP => {
            let r = t.pop();
            let e = m.pop();
            match (r, e) {
                (None, None) => {}
                (Some(c), Some(x)) => assert!(c as u32 == x, "[RET] pop() returned a different char than String::pop"),
                _ => assert!(false, "[RET] pop() Some/None differs from String::pop"),
            }
        }
        REMOVE => {
            let idx: usize = kani::any();
            kani::assume(!m.remove_panics(idx));
            let c = t.remove(idx);
            let x = m.remove(idx);
            assert!(c as u32 == x, "[RET] remove() returned a different char than String::remove");
        }
        INSERT => {
            let idx: usize = kani::any();
            kani::assume(!m.insert_panics(idx));
            // symbolic index + symbolic char width does not scale: the char is a concrete
            // representative of width `k` (k = 0: fully symbolic char)
            let c = if k == 0 { any_char() } else { rep_char(k) };
            t.insert(idx, c.c);
            m.insert_bytes(idx, &c.bytes[..c.w]);
        }
        INSERT_STR => {
            let idx: usize = kani::any();
            kani::assume(!m.insert_panics(idx));
            let s = any_str(k, multi);
            t.insert_str(idx, s.as_str());
            m.insert_bytes(idx, s.bytes());
        }
        TRUNCATE => {
            let n: usize = kani::any();
            kani::assume(!m.truncate_panics(n));
            t.truncate(n);
            m.truncate(n);
        }
        CLEAR => {
            t.clear();
            m.clear();
        }
        RETAIN => {
            let bits: u64 = kani::any();
            let mut keep = [false; MCAP];
            let mut q = 0;
            while q < m.bound {
                keep[q] = (bits >> q) & 1 == 1;
                q += 1;
            }
            let mut seen = [0u32; MCAP];
            let mut i = 0;
            t.retain(|c| {
                let r = keep[i];
                seen[i] = c as u32;
                i += 1;
                r
            });
            // what the predicate saw: every char of the old text, once, in order
            let old = *m;
            let n = m.retain(&keep);
            assert!(i == n, "[RET] retain() called the predicate a different number of times than String::retain");
            let mut at = 0;
            let mut j = 0;
            while j < old.bound {
                if j < n {
                    let w = model::width_of_lead(old.buf[at]);
                    let mut cb = [0u8; 4];
                    let mut q = 0;
                    while q < 4 {
                        if q < w {
                            cb[q] = old.buf[at + q];
                        }
                        q += 1;
                    }
                    assert!(seen[j] == model::decode(&cb, w), "[RET] retain() passed a wrong char to the predicate");
                    at += w;
                }
                j += 1;
            }
        }
        RESERVE => {
            let n: usize = kani::any();
            kani::assume(n <= SMALL);
            t.reserve(n);
            assert!(t.capacity() >= t.len() + n, "[CAP] capacity() < len()+n after reserve(n)");
        }
        SHRINK_TO => {
            let n: usize = kani::any();
            t.shrink_to(n);
        }
        SHRINK_FIT => {
            t.shrink_to_fit();
        }
        EXTEND_CHAR => {
            let c = any_char();
            t.extend(core::iter::once(c.c));
            m.push_bytes(&c.bytes[..c.w]);
        }
        EXTEND_STR => {
            let s = any_str(k, multi);
            t.extend(core::iter::once(s.as_str()));
            m.push_bytes(s.bytes());
        }
        ADD_ASSIGN => {
            let s = any_str(k, multi);
            *t += s.as_str();
            m.push_bytes(s.bytes());
        }
        ADD => {
            let s = any_str(k, multi);
            let old = core::mem::replace(t, LeanString::new());
            *t = old + s.as_str();
            m.push_bytes(s.bytes());
        }
        WRITE => {
            let s = any_str(k, multi);
            let r = t.write_str(s.as_str());
            assert!(r.is_ok(), "[RET] write_str returned Err");
            m.push_bytes(s.bytes());
        }
        CLONE_DROP => {
            let before = shim::snap();
            let c = t.clone();
            assert!(shim::snap().reqs == before.reqs, "[CLONE] clone() issued an allocator request");
            crate::st::check_handle(&c, m);
            drop(c);
        }
        CLONE_FROM_NEW => {
            let src = LeanString::from("0123456789abcdefghij");
            t.clone_from(&src);
            let bound = m.bound;
            *m = ModelStr::from_bytes_bounded(b"0123456789abcdefghij", bound);
            drop(src);
        }
        _ => {
            // ASSIGN_NEW
            *t = LeanString::from("xyz");
            let bound = m.bound;
            *m = ModelStr::from_bytes_bounded(b"xyz", bound);
        }
    }
}

/// `try_` forms: returns true when the call returned Ok (and then the model was advanced).
/// On `Err` neither the model nor - if the crate is right - the string changed.
pub fn apply_try(op: u8, k: usize, multi: bool, t: &mut LeanString, m: &mut ModelStr) -> bool {
    match op {
        PUSH | EXTEND_CHAR => {
            let c = any_char();
            if t.try_push(c.c).is_ok() {
                m.push_bytes(&c.bytes[..c.w]);
                true
            } else {
                false
            }
        }
        PUSH_STR => {
            let s = any_str(k, multi);
            if t.try_push_str(s.as_str()).is_ok() {
                m.push_bytes(s.bytes());
                true
            } else {
                false
            }
        }
        POP => match t.try_pop() {
            Ok(r) => {
                let e = m.pop();
                match (r, e) {
                    (None, None) => {}
                    (Some(c), Some(x)) => assert!(c as u32 == x, "[RET] try_pop() returned a different char than String::pop"),
                    _ => assert!(false, "[RET] try_pop() Some/None differs from String::pop"),
                }
                true
            }
            Err(_) => false,
        },
        REMOVE => {
            let idx: usize = kani::any();
            kani::assume(!m.remove_panics(idx));
            match t.try_remove(idx) {
                Ok(c) => {
                    let x = m.remove(idx);
                    assert!(c as u32 == x, "[RET] try_remove() returned a different char than String::remove");
                    true
                }
                Err(_) => false,
            }
        }
        INSERT => {
            let idx: usize = kani::any();
            kani::assume(!m.insert_panics(idx));
            let c = if k == 0 { any_char() } else { rep_char(k) };
            if t.try_insert(idx, c.c).is_ok() {
                m.insert_bytes(idx, &c.bytes[..c.w]);
                true
            } else {
                false
            }
        }
        INSERT_STR => {
            let idx: usize = kani::any();
            kani::assume(!m.insert_panics(idx));
            let s = any_str(k, multi);
            if t.try_insert_str(idx, s.as_str()).is_ok() {
                m.insert_bytes(idx, s.bytes());
                true
            } else {
                false
            }
        }
        TRUNCATE => {
            let n: usize = kani::any();
            kani::assume(!m.truncate_panics(n));
            if t.try_truncate(n).is_ok() {
                m.truncate(n);
                true
            } else {
                false
            }
        }
        RETAIN => {
            let bits: u64 = kani::any();
            let mut keep = [false; MCAP];
            let mut q = 0;
            while q < m.bound {
                keep[q] = (bits >> q) & 1 == 1;
                q += 1;
            }
            let mut i = 0;
            let r = t.try_retain(|_c| {
                let r = keep[i];
                i += 1;
                r
            });
            if r.is_ok() {
                m.retain(&keep);
                true
            } else {
                assert!(i == 0, "[C05] try_retain called the predicate although it reports failure");
                false
            }
        }
        RESERVE => {
            let n: usize = kani::any();
            kani::assume(n <= SMALL);
            if t.try_reserve(n).is_ok() {
                assert!(t.capacity() >= t.len() + n, "[CAP] capacity() < len()+n after try_reserve(n)");
                true
            } else {
                false
            }
        }
        SHRINK_TO => {
            let n: usize = kani::any();
            t.try_shrink_to(n).is_ok()
        }
        _ => t.try_shrink_to_fit().is_ok(),
    }
}

/// Plain (panicking) forms of the operations that can allocate; used with the failure window open.
pub fn apply_plain_alloc(op: u8, k: usize, multi: bool, t: &mut LeanString, m: &mut ModelStr) {
    apply(op, k, multi, t, m)
}

/// Iterator with a solver-chosen `size_hint` lower bound and at most one item.
pub struct Hint {
    pub lo: usize,
    pub item: Option<char>,
}
impl Iterator for Hint {
    type Item = char;
    fn next(&mut self) -> Option<char> {
        self.item.take()
    }
    fn size_hint(&self) -> (usize, Option<usize>) {
        (self.lo, None)
    }
}
