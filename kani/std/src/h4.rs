//! C19: serde / arbitrary integrations (compiled with the harness crate's `ls_all` feature).

use crate::h2::by_history;
use crate::model::{self, ModelStr, MCAP};
use crate::shim;
use crate::st::{self, *};
use crate::text::{self, *};
use alloc::string::String;
use lean_string::LeanString;
use serde::de::value::{BorrowedBytesDeserializer, BorrowedStrDeserializer, BytesDeserializer, StrDeserializer, StringDeserializer};
use serde::ser::Impossible;
use serde::{Deserialize, Serialize, Serializer};

/// Error type that discards the message, so no formatting code is executed.
#[derive(Debug)]
pub struct Discard;
impl core::fmt::Display for Discard {
    fn fmt(&self, f: &mut core::fmt::Formatter<'_>) -> core::fmt::Result {
        f.write_str("discarded")
    }
}
impl core::error::Error for Discard {}
impl serde::ser::Error for Discard {
    fn custom<T: core::fmt::Display>(_msg: T) -> Self {
        Discard
    }
}
impl serde::de::Error for Discard {
    fn custom<T: core::fmt::Display>(_msg: T) -> Self {
        Discard
    }
}

/// What a serializer was asked to do.
pub struct Rec {
    pub calls: usize,
    pub other: usize,
    pub len: usize,
    pub bytes: [u8; 32],
}
pub static mut REC: Rec = Rec { calls: 0, other: 0, len: 0, bytes: [0; 32] };

pub struct Recorder;
macro_rules! refuse {
    ($($name:ident($($t:ty),*);)*) => { $( fn $name(self, $(_: $t),*) -> Result<(), Discard> { unsafe { REC.other += 1; } Err(Discard) } )* };
}
impl Serializer for Recorder {
    type Ok = ();
    type Error = Discard;
    type SerializeSeq = Impossible<(), Discard>;
    type SerializeTuple = Impossible<(), Discard>;
    type SerializeTupleStruct = Impossible<(), Discard>;
    type SerializeTupleVariant = Impossible<(), Discard>;
    type SerializeMap = Impossible<(), Discard>;
    type SerializeStruct = Impossible<(), Discard>;
    type SerializeStructVariant = Impossible<(), Discard>;
    fn serialize_str(self, v: &str) -> Result<(), Discard> {
        unsafe {
            REC.calls += 1;
            REC.len = v.len();
            let b = v.as_bytes();
            let mut i = 0;
            while i < b.len() && i < 32 {
                REC.bytes[i] = b[i];
                i += 1;
            }
        }
        Ok(())
    }
    refuse! {
        serialize_bool(bool); serialize_i8(i8); serialize_i16(i16); serialize_i32(i32); serialize_i64(i64);
        serialize_u8(u8); serialize_u16(u16); serialize_u32(u32); serialize_u64(u64); serialize_f32(f32); serialize_f64(f64);
        serialize_char(char); serialize_bytes(&[u8]); serialize_none(); serialize_unit(); serialize_unit_struct(&'static str);
        serialize_unit_variant(&'static str, u32, &'static str);
    }
    fn serialize_some<T: ?Sized + Serialize>(self, _: &T) -> Result<(), Discard> {
        unsafe { REC.other += 1 };
        Err(Discard)
    }
    fn serialize_newtype_struct<T: ?Sized + Serialize>(self, _: &'static str, _: &T) -> Result<(), Discard> {
        unsafe { REC.other += 1 };
        Err(Discard)
    }
    fn serialize_newtype_variant<T: ?Sized + Serialize>(self, _: &'static str, _: u32, _: &'static str, _: &T) -> Result<(), Discard> {
        unsafe { REC.other += 1 };
        Err(Discard)
    }
    fn serialize_seq(self, _: Option<usize>) -> Result<Self::SerializeSeq, Discard> {
        Err(Discard)
    }
    fn serialize_tuple(self, _: usize) -> Result<Self::SerializeTuple, Discard> {
        Err(Discard)
    }
    fn serialize_tuple_struct(self, _: &'static str, _: usize) -> Result<Self::SerializeTupleStruct, Discard> {
        Err(Discard)
    }
    fn serialize_tuple_variant(self, _: &'static str, _: u32, _: &'static str, _: usize) -> Result<Self::SerializeTupleVariant, Discard> {
        Err(Discard)
    }
    fn serialize_map(self, _: Option<usize>) -> Result<Self::SerializeMap, Discard> {
        Err(Discard)
    }
    fn serialize_struct(self, _: &'static str, _: usize) -> Result<Self::SerializeStruct, Discard> {
        Err(Discard)
    }
    fn serialize_struct_variant(self, _: &'static str, _: u32, _: &'static str, _: usize) -> Result<Self::SerializeStructVariant, Discard> {
        Err(Discard)
    }
    fn collect_str<T: ?Sized + core::fmt::Display>(self, _: &T) -> Result<(), Discard> {
        unsafe { REC.other += 1 };
        Err(Discard)
    }
}

/// Serialize issues exactly the serialize_str call the same `str` issues, whatever the history.
pub fn ser(fam: u8, n: usize, hist: u8) {
    let txt = make(fam, n);
    let (s, keep) = by_history(hist, &txt, n);
    let r = s.serialize(Recorder);
    assert!(r.is_ok(), "[C19] Serialize failed");
    unsafe {
        assert!(REC.calls == 1 && REC.other == 0, "[C19] Serialize did not issue exactly one serialize_str call");
        assert!(REC.len == n, "[C19] serialized length differs from the text");
        let mut i = 0;
        while i < n {
            assert!(REC.bytes[i] == txt[i], "[C19] serialized text differs");
            i += 1;
        }
    }
    drop(s);
    drop(keep);
    kani::cover!(true, "end of harness reached");
}

/// Deserialize through serde's value deserializers.  `which`: 0 StrDeserializer 1 BorrowedStr
/// 2 StringDeserializer 3 BytesDeserializer 4 BorrowedBytesDeserializer; for 3/4 the last `w`
/// bytes are fully symbolic (must be rejected exactly when ill-formed).
pub fn de(which: u8, fam: u8, p: usize, w: usize) {
    let mut buf = make(fam, p);
    let mut i = 0;
    while i < w {
        buf[p + i] = kani::any();
        i += 1;
    }
    let n = p + w;
    let window_ok = model::valid_utf8(&buf[p..n]);
    let m = ModelStr::from_bytes_bounded(&buf[..n], n + 1);
    let r: Result<LeanString, Discard> = match which {
        0 => {
            kani::assume(window_ok);
            let s = unsafe { core::str::from_utf8_unchecked(&buf[..n]) };
            LeanString::deserialize(StrDeserializer::<Discard>::new(s))
        }
        1 => {
            kani::assume(window_ok);
            let s = unsafe { core::str::from_utf8_unchecked(&buf[..n]) };
            LeanString::deserialize(BorrowedStrDeserializer::<Discard>::new(s))
        }
        2 => {
            kani::assume(window_ok);
            let s = unsafe { core::str::from_utf8_unchecked(&buf[..n]) };
            LeanString::deserialize(StringDeserializer::<Discard>::new(String::from(s)))
        }
        3 => LeanString::deserialize(BytesDeserializer::<Discard>::new(&buf[..n])),
        _ => LeanString::deserialize(BorrowedBytesDeserializer::<Discard>::new(&buf[..n])),
    };
    match r {
        Ok(t) => {
            assert!(window_ok, "[C19] byte input that is not UTF-8 was accepted");
            check_handle(&t, &m);
            drop(t);
        }
        Err(_) => assert!(!window_ok && which >= 3, "[C19] valid input was rejected"),
    }
    kani::cover!(window_ok && w > 0, "accepted");
    kani::cover!(!window_ok, "rejected");
    assert!(shim::live() == 0, "[MEM] leak");
    kani::cover!(true, "end of harness reached");
}

/// Arbitrary: the same text <&str>::arbitrary yields from the same bytes.  `mode`: 0 arbitrary,
/// 1 arbitrary_take_rest, 2 size_hint.
pub fn arb(k: usize, mode: u8) {
    use arbitrary::{Arbitrary, Unstructured};
    let mut raw = [0u8; 8];
    let mut i = 0;
    while i < k {
        raw[i] = kani::any();
        i += 1;
    }
    if mode == 2 {
        let d: usize = kani::any();
        kani::assume(d < 4);
        assert!(<LeanString as Arbitrary>::size_hint(d) == <&str as Arbitrary>::size_hint(d), "[C19] size_hint differs from <&str>::size_hint");
        kani::cover!(true, "end of harness reached");
        return;
    }
    let (a, b) = if mode == 0 {
        let mut u1 = Unstructured::new(&raw[..k]);
        let mut u2 = Unstructured::new(&raw[..k]);
        let a = <LeanString as Arbitrary>::arbitrary(&mut u1);
        let b = <&str as Arbitrary>::arbitrary(&mut u2);
        assert!(u1.len() == u2.len(), "[C19] arbitrary consumed a different number of bytes than <&str>::arbitrary");
        (a, b)
    } else {
        (<LeanString as Arbitrary>::arbitrary_take_rest(Unstructured::new(&raw[..k])), <&str as Arbitrary>::arbitrary_take_rest(Unstructured::new(&raw[..k])))
    };
    match (a, b) {
        (Ok(t), Ok(s)) => {
            assert!(t.len() == s.len(), "[C19] arbitrary text length differs from <&str>::arbitrary");
            let tb = t.as_bytes();
            let sb = s.as_bytes();
            let mut i = 0;
            while i < 8 {
                if i < sb.len() {
                    assert!(tb[i] == sb[i], "[C19] arbitrary text differs from <&str>::arbitrary");
                }
                i += 1;
            }
            kani::cover!(s.len() > 0, "non-empty text");
            drop(t);
        }
        (Err(_), Err(_)) => {}
        _ => assert!(false, "[C19] arbitrary Ok/Err differs from <&str>::arbitrary"),
    }
    kani::cover!(true, "end of harness reached");
}


/// arbitrary_take_rest on literal seeds that are not (entirely) valid UTF-8 - the symbolic variant
/// only finishes on the empty input.
pub fn arb_take_rest_concrete(k: usize) {
    use arbitrary::{Arbitrary, Unstructured};
    const SEEDS: [&[u8]; 6] = [&[0x80], &[0x41, 0xFF, 0x41], &[0xE2, 0x82], &[0x41, 0x42, 0x43], &[0xC3, 0xA9, 0x80], &[0xF0, 0x9D, 0x84, 0x9E, 0xED, 0xA0, 0x80]];
    let raw = SEEDS[k];
    let a = <LeanString as Arbitrary>::arbitrary_take_rest(Unstructured::new(raw));
    let b = <&str as Arbitrary>::arbitrary_take_rest(Unstructured::new(raw));
    match (a, b) {
        (Ok(t), Ok(s)) => {
            assert!(t.len() == s.len(), "[C19] arbitrary_take_rest text length differs from <&str>");
            let tb = t.as_bytes();
            let sb = s.as_bytes();
            let mut i = 0;
            while i < 8 {
                if i < sb.len() {
                    assert!(tb[i] == sb[i], "[C19] arbitrary_take_rest text differs from <&str>");
                }
                i += 1;
            }
        }
        (Err(_), Err(_)) => {}
        _ => assert!(false, "[C19] arbitrary_take_rest Ok/Err differs from <&str>"),
    }
    kani::cover!(true, "end of harness reached");
}
