//! Translator validation of the oracle: `ModelStr` must agree with `std::string::String` on
//! operation sequences (results, return values and panic preconditions).  Run natively by
//! `/verif/check` before every solver run; a disagreement makes the run inconclusive.
use ls_harness::model::*;
use std::panic::{catch_unwind, AssertUnwindSafe};

struct Lcg(u64);
impl Lcg {
    fn next(&mut self) -> u64 {
        self.0 = self.0.wrapping_mul(6364136223846793005).wrapping_add(1442695040888963407);
        self.0 >> 33
    }
    fn below(&mut self, n: usize) -> usize {
        (self.next() % n as u64) as usize
    }
}
const CHARS: &[char] = &['a', 'Z', '\0', '\x7f', 'é', '\u{80}', '\u{7ff}', '€', '\u{800}', '\u{ffff}', '\u{d7ff}', '\u{e000}', '𝄞', '\u{10000}', '\u{10ffff}'];

fn same(m: &ModelStr, s: &String) {
    assert_eq!(m.as_bytes(), s.as_bytes());
    assert!(m.eq_bytes(s.as_bytes()));
}

fn run(seed: u64, steps: usize) {
    let mut r = Lcg(seed);
    let mut s = String::new();
    let mut m = ModelStr::new();
    for _ in 0..steps {
        match r.below(9) {
            0 => {
                let c = CHARS[r.below(CHARS.len())];
                if m.fits(4) {
                    let (b, w) = encode(c as u32);
                    let mut tmp = [0u8; 4];
                    assert_eq!(c.encode_utf8(&mut tmp).as_bytes(), &b[..w]);
                    assert_eq!(decode(&b, w), c as u32);
                    assert_eq!(width_of_lead(b[0]), w);
                    s.push(c);
                    m.push_bytes(&b[..w]);
                }
            }
            1 => {
                let (a, b) = (s.pop(), m.pop());
                assert_eq!(a.map(|c| c as u32), b);
            }
            2 => {
                let idx = r.below(s.len() + 3);
                let panics = catch_unwind(AssertUnwindSafe(|| {
                    let mut t = s.clone();
                    t.remove(idx)
                }))
                .is_err();
                assert_eq!(panics, m.remove_panics(idx), "remove panic predicate at {idx} of {s:?}");
                if !panics {
                    assert_eq!(s.remove(idx) as u32, m.remove(idx));
                }
            }
            3 => {
                let idx = r.below(s.len() + 3);
                let piece = ["", "x", "é€", "ab𝄞", "1234567", "€€"][r.below(6)];
                let panics = catch_unwind(AssertUnwindSafe(|| {
                    let mut t = s.clone();
                    t.insert_str(idx, piece)
                }))
                .is_err();
                assert_eq!(panics, m.insert_panics(idx), "insert panic predicate at {idx} of {s:?}");
                if !panics && m.fits(piece.len()) {
                    s.insert_str(idx, piece);
                    m.insert_bytes(idx, piece.as_bytes());
                }
            }
            4 => {
                let n = r.below(s.len() + 3);
                let panics = catch_unwind(AssertUnwindSafe(|| {
                    let mut t = s.clone();
                    t.truncate(n)
                }))
                .is_err();
                assert_eq!(panics, m.truncate_panics(n), "truncate panic predicate at {n} of {s:?}");
                if !panics {
                    s.truncate(n);
                    m.truncate(n);
                }
            }
            5 => {
                if r.below(6) == 0 {
                    s.clear();
                    m.clear();
                }
            }
            6 => {
                let bits = r.next() ^ (r.next() << 31);
                let mut keep = [false; MCAP];
                for (i, k) in keep.iter_mut().enumerate() {
                    *k = (bits >> i) & 1 == 1;
                }
                let mut i = 0;
                s.retain(|_| {
                    let k = keep[i];
                    i += 1;
                    k
                });
                let n = m.retain(&keep);
                assert_eq!(i, n);
            }
            7 => {
                let piece = ["", "q", "é", "€", "𝄞", "abcdefgh"][r.below(6)];
                if m.fits(piece.len()) {
                    s.push_str(piece);
                    m.push_bytes(piece.as_bytes());
                }
            }
            _ => {
                for idx in 0..s.len() + 3 {
                    assert_eq!(s.is_char_boundary(idx), m.is_char_boundary(idx));
                }
            }
        }
        same(&m, &s);
    }
}

#[test]
fn model_agrees_with_string_on_random_sequences() {
    let seed: u64 = std::env::var("VERIF_SEED").ok().and_then(|s| s.parse().ok()).unwrap_or(0);
    for k in 0..400 {
        run(seed.wrapping_mul(1000).wrapping_add(k), 60);
    }
}

#[test]
fn encode_decode_all_scalars() {
    let mut tmp = [0u8; 4];
    for c in (0u32..=0x10FFFF).filter_map(char::from_u32) {
        let (b, w) = encode(c as u32);
        assert_eq!(c.encode_utf8(&mut tmp).as_bytes(), &b[..w]);
        assert_eq!(decode(&b, w), c as u32);
        assert_eq!(width_of_lead(b[0]), w);
    }
}

#[test]
fn text_families_are_valid_utf8_natively() {
    use ls_harness::text::*;
    for fam in [FAM_A, FAM_T, FAM_M, FAM_M2, FAM_M3, FAM_C] {
        for n in 0..=TMAX {
            // natively the "symbolic" bytes are a fixed filler, so only layout-independent facts
            // are checked here: floor_boundary is monotone, idempotent and <= l
            for l in 0..=n {
                let f = floor_boundary(fam, n, l);
                assert!(f <= l);
                assert_eq!(floor_boundary(fam, n, f), f);
            }
            if fam == FAM_T || fam == FAM_C {
                let b = make(fam, n);
                let s = std::str::from_utf8(&b[..n]).expect("template family must be valid UTF-8");
                for l in 0..=n {
                    assert!(s.is_char_boundary(floor_boundary(fam, n, l)));
                }
            }
        }
    }
}

#[test]
fn valid_utf8_agrees_with_std() {
    // exhaustive over all 1- and 2-byte inputs, all 3-byte inputs with a stride, and 4-byte inputs
    // around every class boundary
    for a in 0..=255u8 {
        assert_eq!(valid_utf8(&[a]), std::str::from_utf8(&[a]).is_ok());
        for b in 0..=255u8 {
            assert_eq!(valid_utf8(&[a, b]), std::str::from_utf8(&[a, b]).is_ok(), "{a:x} {b:x}");
        }
    }
    let edges: Vec<u8> = vec![0x00, 0x41, 0x7F, 0x80, 0x8F, 0x90, 0x9F, 0xA0, 0xBF, 0xC0, 0xC1, 0xC2, 0xDF, 0xE0, 0xE1, 0xEC, 0xED, 0xEE, 0xEF, 0xF0, 0xF1, 0xF3, 0xF4, 0xF5, 0xFF];
    for &a in &edges {
        for &b in &edges {
            for &c in &edges {
                assert_eq!(valid_utf8(&[a, b, c]), std::str::from_utf8(&[a, b, c]).is_ok(), "{a:x} {b:x} {c:x}");
                for &d in &edges {
                    assert_eq!(valid_utf8(&[a, b, c, d]), std::str::from_utf8(&[a, b, c, d]).is_ok(), "{a:x} {b:x} {c:x} {d:x}");
                }
            }
        }
    }
    for x in (0..(1u32 << 24)).step_by(7) {
        let v = [(x >> 16) as u8, (x >> 8) as u8, x as u8];
        assert_eq!(valid_utf8(&v), std::str::from_utf8(&v).is_ok());
    }
}
