//! Shim for the `loom` crate, used only by /verif (the crate under test selects it through its own
//! `#[cfg(loom)] use loom::sync::atomic::...`).  Every atomic operation is a plain read/write
//! bracketed by `yield_point()` calls.  At a yield point the installed hook (the harness's
//! scheduler) may run operations of *other* threads to completion; nested yield points are
//! disabled while the hook runs, so exactly one thread at a time is mid-operation.
//! Memory orderings are ignored: only sequentially consistent interleavings are represented.
#![no_std]
#![allow(static_mut_refs)]

pub mod sched {
    /// scheduling enabled?  (the hook itself is stubbed in by the harness crate
    /// - a function pointer would make the model checker consider every `fn()` in the program)
    pub static mut ENABLED: bool = false;
    pub static mut IN_HOOK: bool = false;
    /// Replaced by the harness crate's scheduler through `#[kani::stub(loom::sched::hook, ...)]`.
    #[inline(never)]
    pub fn hook() {}
    /// number of atomic read-modify-write operations executed (ghost counter)
    pub static mut RMW: usize = 0;
    pub static mut YIELDS: usize = 0;
    /// when set, any atomic read-modify-write is a violation (used before an expected panic)
    pub static mut FORBID_RMW: bool = false;

    #[inline(never)]
    pub fn yield_point() {
        unsafe {
            YIELDS += 1;
            if ENABLED && !IN_HOOK {
                IN_HOOK = true;
                hook();
                IN_HOOK = false;
            }
        }
    }
}

pub mod sync {
    pub mod atomic {
        pub use core::sync::atomic::Ordering;
        use core::cell::UnsafeCell;

        #[repr(transparent)]
        pub struct AtomicUsize {
            v: UnsafeCell<usize>,
        }
        unsafe impl Sync for AtomicUsize {}
        unsafe impl Send for AtomicUsize {}

        impl AtomicUsize {
            pub const fn new(v: usize) -> Self {
                AtomicUsize { v: UnsafeCell::new(v) }
            }
            pub fn load(&self, _o: Ordering) -> usize {
                crate::sched::yield_point();
                let r = unsafe { *self.v.get() };
                crate::sched::yield_point();
                r
            }
            pub fn store(&self, val: usize, _o: Ordering) {
                crate::sched::yield_point();
                unsafe { *self.v.get() = val };
                crate::sched::yield_point();
            }
            pub fn fetch_add(&self, val: usize, _o: Ordering) -> usize {
                crate::sched::yield_point();
                let old = unsafe {
                    assert!(!crate::sched::FORBID_RMW, "[seam] reference count written before an expected panic");
                    crate::sched::RMW += 1;
                    let old = *self.v.get();
                    *self.v.get() = old.wrapping_add(val);
                    old
                };
                crate::sched::yield_point();
                old
            }
            pub fn fetch_sub(&self, val: usize, _o: Ordering) -> usize {
                crate::sched::yield_point();
                let old = unsafe {
                    assert!(!crate::sched::FORBID_RMW, "[seam] reference count written before an expected panic");
                    crate::sched::RMW += 1;
                    let old = *self.v.get();
                    *self.v.get() = old.wrapping_sub(val);
                    old
                };
                crate::sched::yield_point();
                old
            }
        }

        pub fn fence(_o: Ordering) {
            crate::sched::yield_point();
        }
    }
}
