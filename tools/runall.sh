#!/bin/bash
# run every claimed check's quick command sequentially on the current /repo tree; one summary line each
cd /verif
: > .build/runall.log
for p in "$@"; do
  s=$(date +%s)
  ./check $p --tier quick > .build/runall-$p.out 2>&1; rc=$?
  e=$(date +%s)
  echo "$p rc=$rc $((e-s))s $(grep -E '^\[' .build/runall-$p.out | tail -1)" >> .build/runall.log
done
echo DONE >> .build/runall.log
