#!/bin/bash
# tools/verify_seed.sh <worktree> <k> <dest-dir-under-/verif/seeded>
# Re-confirms a sub-agent's mutation in its scratch worktree: existing suite passes with it, the demo
# fails with it and passes without it.  On success copies patch/demo/meta to /verif/seeded/<dest>.
set -u
WT=$1; K=$2; DEST=/verif/seeded/$3
export CARGO_NET_OFFLINE=true
cd "$WT" || exit 2
git checkout -q -- src 2>/dev/null; rm -f tests/demo_m*.rs
git apply --check out/m$K/patch.diff || { echo "patch does not apply"; exit 2; }
cp out/m$K/demo.rs tests/demo_m$K.rs
cargo test --offline ${DEMO_ARGS:-} --test demo_m$K >/tmp/vs_clean.log 2>&1; CLEAN=$?
rm -f tests/demo_m$K.rs
git apply out/m$K/patch.diff
cargo test --offline --workspace ${SUITE_ARGS:-} >/tmp/vs_suite.log 2>&1; SUITE=$?
cp out/m$K/demo.rs tests/demo_m$K.rs
cargo test --offline ${DEMO_ARGS:-} --test demo_m$K >/tmp/vs_mut.log 2>&1; MUT=$?
rm -f tests/demo_m$K.rs; git checkout -q -- src
echo "demo on clean HEAD: exit $CLEAN (want 0); suite with mutation: exit $SUITE (want 0); demo with mutation: exit $MUT (want != 0)"
if [ $CLEAN -eq 0 ] && [ $SUITE -eq 0 ] && [ $MUT -ne 0 ]; then
  mkdir -p "$DEST"; cp out/m$K/patch.diff out/m$K/demo.rs "$DEST/"
  python3 - "$WT/out/m$K/meta.json" "$DEST/meta.json" "$CLEAN" "$SUITE" "$MUT" <<'PY'
import json,sys
try: m=json.load(open(sys.argv[1]))
except Exception as e: m={"note":"agent meta unreadable: %r"%e}
m["verified_by_me"]={"demo_on_clean_HEAD_exit":int(sys.argv[3]),"suite_with_mutation_exit":int(sys.argv[4]),"demo_with_mutation_exit":int(sys.argv[5]),
  "commands":["git apply patch.diff","cargo test --offline --workspace","cargo test --offline --test demo_m<k>","git checkout -- src","cargo test --offline --test demo_m<k>"]}
json.dump(m,open(sys.argv[2],"w"),indent=1)
PY
  echo "KEPT $DEST"; exit 0
fi
echo "REJECTED"; tail -5 /tmp/vs_clean.log /tmp/vs_suite.log /tmp/vs_mut.log; exit 1
