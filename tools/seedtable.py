#!/usr/bin/env python3
"""Collects seeded/<dir>/check-<prop>.out into a markdown table (for DESIGN.md section 11)."""
import os, re, json, glob
rows = []
for d in sorted(glob.glob('/verif/seeded/*')):
    name = os.path.basename(d)
    meta = {}
    try:
        meta = json.load(open(os.path.join(d, 'meta.json')))
    except Exception:
        pass
    res = []
    for f in sorted(glob.glob(os.path.join(d, 'check-*.out'))):
        prop = re.search(r'check-(C\d+)\.out', f).group(1)
        t = open(f).read()
        nv = len(re.findall(r'^VIOLATION', t, re.M))
        m = re.search(r'^\[.*?\] (queries=.*)$', t, re.M)
        first = re.search(r'^VIOLATION .*\n  (.*)', t, re.M)
        verdict = 'CAUGHT' if nv else ('inconclusive' if 'INCONCLUSIVE' in t else 'missed')
        res.append((prop, verdict, (first.group(1)[:110] if first else '')))
    rows.append((name, meta.get('summary', meta.get('needs', ''))[:120] if isinstance(meta, dict) else '', res))
for name, summ, res in rows:
    print('| `%s` | %s |' % (name, '; '.join('%s: **%s**%s' % (p, v, (' - ' + w.replace('|', '/')) if w else '') for p, v, w in res) or 'not run yet'))
