#!/usr/bin/env python3
"""Rewrites the '## 12. Seeded changes' section of DESIGN.md from seeded/*/check-*.out and meta.json."""
import os, re, json, glob, subprocess
rows = []
for d in sorted(glob.glob('/verif/seeded/*')):
    name = os.path.basename(d)
    meta = {}
    try:
        meta = json.load(open(os.path.join(d, 'meta.json')))
    except Exception:
        pass
    summ = ''
    if isinstance(meta, dict):
        summ = (meta.get('summary') or meta.get('needs') or '')
    summ = re.sub(r'\s+', ' ', str(summ))[:150].replace('|', '/')
    res = []
    for f in sorted(glob.glob(os.path.join(d, 'check-*.out'))):
        prop = re.search(r'check-(C\d+)\.out', f).group(1)
        t = open(f).read()
        nv = len(re.findall(r'^VIOLATION', t, re.M))
        first = re.search(r'^VIOLATION .*\n  ([^\n]*)', t, re.M)
        verdict = 'caught' if nv else ('inconclusive' if 'INCONCLUSIVE' in t else 'MISSED')
        why = ''
        if first:
            w = first.group(1)
            w = re.sub(r'@ \S*rustlib\S*', '@ core', w)
            why = w[:140].replace('|', '/')
        res.append('%s **%s**%s' % (prop, verdict, (': ' + why) if why else ''))
    rows.append('| `%s` | %s | %s |' % (name, summ, '<br>'.join(res) or 'not run'))
table = ('## 12. Seeded changes and what catches them\n\n'
         'Each directory under `/verif/seeded/` holds `patch.diff`, the native demonstration `demo.rs` (fails with the change, passes without),\n'
         '`meta.json` (what it needs in order to manifest, what was run, my own re-confirmation) and the output of the quick check(s) run with the\n'
         'change applied (`check-<prop>.out`).  Every change compiles and passes the 92 baseline tests.  The first two are the reverse diffs of the `fix:` commits.\n\n'
         '| seeded change | what it is | quick check with the change applied |\n|---|---|---|\n' + '\n'.join(rows) + '\n')
p = '/verif/DESIGN.md'
s = open(p).read()
if '## 12. Seeded changes' in s:
    s = s[:s.index('## 12. Seeded changes')]
s = s.rstrip('\n') + '\n\n' + table
open(p, 'w').write(s)
print(len(rows), 'rows')
