#!/bin/bash
# tools/seedrun.sh <seeded-dir-name> <prop> [check args...] : apply the seeded patch to /repo, run the check, restore /repo.
set -u
NAME=$1; D=/verif/seeded/$1; P=$2; shift 2
cd /verif
git -C /repo diff --quiet || { echo "/repo is dirty; refusing"; exit 3; }
git -C /repo apply "$D/patch.diff" || { echo "patch does not apply"; exit 3; }
./check $P "$@" > "$D/check-$P.out" 2>&1; RC=$?
git -C /repo checkout -- .
echo "$NAME $P exit=$RC $(grep -c '^VIOLATION' $D/check-$P.out) violation line(s); $(grep -E '^\[' $D/check-$P.out | tail -1)"
grep -E "^VIOLATION|^  " "$D/check-$P.out" | head -4 | cut -c1-220
exit $RC
