#!/bin/bash
cd /verif
for p in "$@"; do
  s=$(date +%s)
  ./check $p --tier thorough > .build/thorough-$p.out 2>&1; rc=$?
  e=$(date +%s)
  echo "$p rc=$rc $((e-s))s $(grep -E '^\[' .build/thorough-$p.out | tail -1)" >> .build/thorough.log
done
echo DONE >> .build/thorough.log
