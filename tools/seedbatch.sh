#!/bin/bash
# run a list of "<seed-dir> <prop>" pairs sequentially, append a one-line summary per run
cd /verif
while read -r d p; do
  [ -z "$d" ] && continue
  tools/seedrun.sh "$d" "$p" >> .build/seedbatch.log 2>&1
done
